from ._exact import init_sources, init_targets, setup, update_charges, clear_values, evaluate, _Fmm, CALLS  # noqa: F401


def LaplaceFmm(p, ncrit, filename=None):
    return _Fmm("laplace", p, ncrit, None, filename)


def HelmholtzFmm(p, ncrit, wavenumber, filename=None):
    return _Fmm("helmholtz", p, ncrit, wavenumber, filename)


def ModifiedHelmholtzFmm(p, ncrit, wavenumber, filename=None):
    return _Fmm("modified_helmholtz", p, ncrit, wavenumber, filename)
