"""Exact-summation stand-in for exafmm (harness stub, independent of bempp_cl.api.fmm.helpers).

evaluate() returns, for every target x_i, [u, du/dx, du/dy, du/dz] of u(x) = sum_j q_j G(x - y_j) with the
terms at r = 0 left out.  G = 1/(4 pi r), exp(i k r)/(4 pi r), exp(-w r)/(4 pi r).
"""
import numpy as np

CALLS = {"setup": 0, "evaluate": 0}


class _Points:
    def __init__(self, pts, charges=None):
        self.pts = np.array(pts, dtype=np.float64).reshape(-1, 3)
        self.charges = None if charges is None else np.array(charges)


class _Fmm:
    def __init__(self, mode, p, ncrit, wavenumber=None, filename=None):
        self.mode, self.p, self.ncrit, self.k, self.filename = mode, p, ncrit, wavenumber, filename


class _Tree:
    def __init__(self, sources, targets, fmm):
        self.src = sources.pts
        self.tgt = targets.pts
        self.charges = np.zeros(len(self.src))
        self.fmm = fmm


def init_sources(points, charges):
    return _Points(points, charges)


def init_targets(points):
    return _Points(points)


def setup(sources, targets, fmm):
    CALLS["setup"] += 1
    return _Tree(sources, targets, fmm)


def update_charges(tree, vec):
    tree.charges = np.array(vec).reshape(-1)


def clear_values(tree):
    pass


def evaluate(tree, fmm, block=256):
    CALLS["evaluate"] += 1
    q = tree.charges
    mode = fmm.mode
    cplx = mode == "helmholtz" or np.iscomplexobj(q)
    out = np.zeros((len(tree.tgt), 4), dtype=np.complex128 if cplx else np.float64)
    for a in range(0, len(tree.tgt), block):
        d = tree.tgt[a:a + block, None, :] - tree.src[None, :, :]
        r = np.sqrt(np.sum(d * d, axis=2))
        zero = r == 0
        rs = np.where(zero, 1.0, r)
        if mode == "laplace":
            g = 1.0 / (4 * np.pi * rs)
            dg = -g / rs  # dG/dr
        elif mode == "helmholtz":
            k = complex(fmm.k)
            g = np.exp(1j * k * rs) / (4 * np.pi * rs)
            dg = g * (1j * k - 1.0 / rs)
        else:
            w = float(np.real(fmm.k))
            g = np.exp(-w * rs) / (4 * np.pi * rs)
            dg = g * (-w - 1.0 / rs)
        g = np.where(zero, 0.0, g)
        dg = np.where(zero, 0.0, dg)
        out[a:a + block, 0] = g @ q
        for c in range(3):
            out[a:a + block, 1 + c] = (dg * d[:, :, c] / rs) @ q
    return out
