"""Harness stub package standing in for exafmm (exact direct summation)."""
