"""Harness side helpers: build real bempp objects from plain specs and read them through the public API."""

import itertools

import numpy as np

KINDS = {
    "DP0": ("DP", 0),
    "DP1": ("DP", 1),
    "P1": ("P", 1),
    "DUAL0": ("DUAL", 0),
    "DUAL1": ("DUAL", 1),
    "RWG": ("RWG", 0),
    "SNC": ("SNC", 0),
    "BC": ("BC", 0),
    "RBC": ("RBC", 0),
}
BARY_KINDS = ("DUAL0", "DUAL1", "BC", "RBC")
EDGE_KINDS = ("RWG", "SNC", "BC", "RBC")
HAS_OPTIONS = ("P1", "RWG", "SNC", "BC", "RBC", "DUAL0")  # kinds for which inc/trunc mean something


def make_grid(mesh):
    import bempp_cl.api as bem

    v, e, d = mesh
    return bem.Grid(np.array(v, dtype=np.float64), np.array(e, dtype=np.uint32), np.array(d, dtype=np.uint32))


def make_space(grid, spec):
    """spec = {kind, sel, inc, trunc, swapped}; options set to None are not passed."""
    import bempp_cl.api as bem

    kind, deg = KINDS[spec["kind"]]
    kw = {}
    sel = spec.get("sel", ("all",))
    if sel[0] == "segments":
        kw["segments"] = list(sel[1])
    elif sel[0] == "elements":
        kw["support_elements"] = np.array(list(sel[1]), dtype=np.uint32)
    if spec.get("inc") is not None:
        kw["include_boundary_dofs"] = bool(spec["inc"])
    if spec.get("trunc") is not None:
        kw["truncate_at_segment_edge"] = bool(spec["trunc"])
    if spec.get("swapped"):
        kw["swapped_normals"] = list(spec["swapped"])
    return bem.function_space(grid, kind, deg, **kw)


def spec_key(spec):
    sel = spec.get("sel", ("all",))
    return (spec["kind"], sel[0], tuple(sel[1]) if len(sel) > 1 else (), spec.get("inc"), spec.get("trunc"),
            tuple(spec.get("swapped") or ()))


def spec_json(spec):
    sel = spec.get("sel", ("all",))
    return {"kind": spec["kind"], "sel": [sel[0]] + ([list(sel[1])] if len(sel) > 1 else []), "inc": spec.get("inc"),
            "trunc": spec.get("trunc"), "swapped": list(spec.get("swapped") or ())}


def spec_from_json(doc):
    sel = doc.get("sel", ["all"])
    return {"kind": doc["kind"], "sel": (sel[0],) + ((tuple(sel[1]),) if len(sel) > 1 else ()), "inc": doc.get("inc"),
            "trunc": doc.get("trunc"), "swapped": tuple(doc.get("swapped") or ())}


def option_variants(kind):
    """(inc, trunc) combinations meaningful for the kind (None = library default / option ignored)."""
    if kind in ("DP0", "DP1", "DUAL1"):
        return [(None, None)]
    return list(itertools.product((False, True), (False, True)))


def global_functions(space, local_pts):
    """F[e] = array (codim, npts, ndof) of all global basis functions on support element e of space.grid.

    Read through space.evaluate / local2global / dof_transformation exactly as GridFunction.evaluate does.
    """
    T = space.dof_transformation
    T = np.asarray(T.todense()) if hasattr(T, "todense") else np.asarray(T)
    out = {}
    l2g = space.local2global
    for e in space.support_elements:
        e = int(e)
        vals = np.asarray(space.evaluate(e, local_pts))  # (c, nshape, npts)
        out[e] = np.einsum("cip,ij->cpj", vals, T[l2g[e].astype(np.int64), :])
    return out


def dense_dof_transformation(space):
    T = space.dof_transformation
    return np.asarray(T.todense()) if hasattr(T, "todense") else np.asarray(T)


def mesh_of_grid(grid):
    return (np.array(grid.vertices, dtype=np.float64), np.array(grid.elements, dtype=np.int64),
            np.array(grid.domain_indices, dtype=np.int64))
