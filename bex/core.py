"""Common machinery of the bounded-exhaustive explorer ("bex").

* Ctx         - one run of one property check: counts cases, records violations,
                filters them through known_findings.json, writes evidence.
* sweep()     - E1: deterministic enumeration of a product of finite axes with an
                optional deviation bound (number of axes that leave their default).
* bfs()       - E2: explicit-state search, state = event history, replayed on
                fresh objects; canonical form de-duplicates.
* pool_map()  - long-lived spawned workers (each pays the JIT cost once).
"""

import fnmatch
import hashlib
import importlib
import itertools
import json
import os
import sys
import time
import traceback

ROOT = os.path.dirname(os.path.dirname(os.path.abspath(__file__)))
EVIDENCE_DIR = os.path.join(ROOT, "evidence")
REPLAY_DIR = os.path.join(ROOT, "replays")
KNOWN_FILE = os.path.join(ROOT, "known_findings.json")
SCHEMA = "/root/.vp/EVIDENCE.schema.json"
# the tree under test: /repo (bempp_cl is an editable install of it) unless BEX_REPO points at another checkout
REPO = os.environ.get("BEX_REPO") or "/repo"

ROUND = 1e-11
MAX_REPLAYS = 25


class CheckBroken(Exception):
    """A coverage assertion of the check itself failed (not a violation)."""


def jsonable(x):
    import numpy as np

    if isinstance(x, dict):
        return {str(k): jsonable(v) for k, v in x.items()}
    if isinstance(x, (list, tuple, set, frozenset)):
        seq = sorted(x, key=repr) if isinstance(x, (set, frozenset)) else x
        return [jsonable(v) for v in seq]
    if isinstance(x, np.ndarray):
        return jsonable(x.tolist())
    if isinstance(x, (np.integer,)):
        return int(x)
    if isinstance(x, (np.floating,)):
        return float(x)
    if isinstance(x, (complex, np.complexfloating)):
        return {"re": float(x.real), "im": float(x.imag)}
    if isinstance(x, (np.bool_,)):
        return bool(x)
    if isinstance(x, (str, int, float, bool)) or x is None:
        return x
    return repr(x)


def unjson_complex(x):
    if isinstance(x, dict) and set(x) == {"re", "im"}:
        return complex(x["re"], x["im"])
    return x


def stable_hash(obj):
    return hashlib.sha256(json.dumps(jsonable(obj), sort_keys=True).encode()).hexdigest()


class Ctx:
    def __init__(self, pid, tier, seed, jobs=0, level="exploration", replaying=False):
        self.pid = pid
        self.tier = tier
        self.seed = seed
        self.jobs = jobs or (os.cpu_count() or 4)
        self.level = level
        self.replaying = replaying
        self.t0 = time.time()
        self.evaluations = 0
        self.distinct = set()
        self.samples = []
        self.cov = {}
        self.sub = {}  # per sub-check counters
        self.max_disc = {}  # per tolerance label: (value, threshold)
        self.declined = 0
        self.violations = []  # (signature, case, message)
        self.known_hits = {}
        self.states = 0
        self.transitions = 0
        self.traces_validated = 0
        self.assumptions = []
        self.caps = []
        self.broken = []
        self._known = self._load_known()
        self.work = os.environ.get("BEX_WORK") or os.path.join(ROOT, ".work", "adhoc")
        os.makedirs(self.work, exist_ok=True)

    # ----- known findings ------------------------------------------------
    def _load_known(self):
        try:
            with open(KNOWN_FILE) as f:
                data = json.load(f)
        except FileNotFoundError:
            return []
        return [e for e in data.get("findings", []) if e.get("property") == self.pid]

    def _match_known(self, signature):
        for e in self._known:
            pats = e.get("signatures") or [e.get("signature")]
            for p in pats:
                if p and (signature == p or fnmatch.fnmatchcase(signature, p)):
                    return e
        return None

    # ----- accounting ----------------------------------------------------
    def case(self, key=None, sub=None, nontrivial=True, sample=None):
        """Count one executed case. key identifies the distinct case."""
        self.evaluations += 1
        if sub:
            self.sub[sub] = self.sub.get(sub, 0) + 1
        if nontrivial and key is not None:
            self.distinct.add(key if isinstance(key, (str, int, tuple)) else stable_hash(key))
        if sample is not None and len(self.samples) < 6:
            self.samples.append(jsonable(sample))

    def observe(self, label, value, threshold):
        value = float(value)
        cur = self.max_disc.get(label)
        if cur is None or value > cur[0]:
            self.max_disc[label] = (value, float(threshold))

    def cover(self, name, item=None, n=1):
        """Coverage fact bookkeeping: a set of items or a counter."""
        if item is not None:
            self.cov.setdefault(name, set()).add(item if isinstance(item, (str, int, tuple)) else repr(item))
        else:
            self.cov[name] = self.cov.get(name, 0) + n

    def require(self, cond, text):
        if not cond:
            self.broken.append(text)

    def cap(self, text):
        self.caps.append(text)

    def violation(self, signature, case, message):
        """Record a property violation for the (minimal) failing case."""
        known = self._match_known(signature)
        if known is not None:
            k = known.get("id") or known.get("signature") or known["signatures"][0]
            self.known_hits.setdefault(k, {"entry": known, "count": 0, "first": message})
            self.known_hits[k]["count"] += 1
            return False
        self.violations.append((signature, jsonable(case), message))
        return True

    def check_close(self, signature, case, got, want, tol, label, scale=None, message=""):
        """|got-want| <= tol*scale  (scale defaults to max|want|, or 1 if that is 0)."""
        import numpy as np

        got = np.asarray(got)
        want = np.asarray(want)
        if got.shape != want.shape:
            return self.violation(signature, case, "%s shape %s != %s %s" % (label, got.shape, want.shape, message))
        if scale is None:
            scale = float(np.max(np.abs(want))) if want.size else 1.0
            if scale == 0:
                scale = 1.0
        diff = np.abs(got - want)
        bad = ~np.isfinite(diff)
        err = float(np.max(diff)) / scale if diff.size and not bad.any() else (np.inf if bad.any() else 0.0)
        self.observe(label, err, tol)
        if not (err <= tol):
            self.violation(signature, case, "%s rel.discrepancy %.3e > %.1e %s" % (label, err, tol, message))
            return False
        return True

    # ----- finishing -----------------------------------------------------
    def _write_replays(self):
        out = []
        by_sig = {}
        for sig, case, msg in self.violations:
            by_sig.setdefault(sig, []).append((case, msg))
        d = os.path.join(REPLAY_DIR, self.pid)
        os.makedirs(d, exist_ok=True)
        for i, (sig, lst) in enumerate(by_sig.items()):
            case, msg = lst[0]
            if i >= MAX_REPLAYS:
                out.append((sig, None, msg, len(lst)))
                continue
            doc = {"property": self.pid, "signature": sig, "message": msg, "case": case, "same_signature": len(lst)}
            path = os.path.join(d, stable_hash([sig, case])[:16] + ".json")
            with open(path, "w") as f:
                json.dump(doc, f, indent=1, sort_keys=True)
            out.append((sig, path, msg, len(lst)))
        return out

    def finish(self, rule, extra=None, exhaustive=True):
        wall = time.time() - self.t0
        cov = {
            "evaluations": int(self.evaluations),
            "distinct_nontrivial": int(len(self.distinct)),
            "rule": rule,
            "samples": self.samples[:6] or [],
            "exhaustive": bool(exhaustive and not self.caps),
            "sub_checks": dict(self.sub),
            "declined": int(self.declined),
            "caps_hit": list(self.caps),
            "max_discrepancy": {k: {"observed": v[0], "threshold": v[1]} for k, v in sorted(self.max_disc.items())},
            "known_findings_hit": {k: v["count"] for k, v in self.known_hits.items()},
        }
        for k, v in self.cov.items():
            cov["cover_" + k] = (sorted(v, key=repr) if len(v) <= 60 else len(v)) if isinstance(v, set) else v
            if isinstance(v, set):
                cov["cover_" + k + "_count"] = len(v)
        if self.level == "model_checking" or self.states:
            cov["states"] = int(self.states)
            cov["transitions"] = int(self.transitions)
            cov["traces_validated_against_impl"] = int(self.traces_validated)
        if extra:
            cov.update(jsonable(extra))
        ev = {
            "property_id": self.pid,
            "tier": self.tier,
            "seed": int(self.seed),
            "level": self.level,
            "coverage": jsonable(cov),
            "assumptions": list(self.assumptions),
            "wall_s": round(wall, 2),
            "violations": len(self.violations),
        }
        rc = 0
        reps = self._write_replays() if self.violations else []
        for k, v in self.known_hits.items():
            print("KNOWN-FINDING: property=%s %s [%s; %d case(s)]" % (self.pid, v["entry"].get("what", k), k, v["count"]))
        for sig, path, msg, n in reps:
            rc = 1
            print("VIOLATION property=%s replay=%s" % (self.pid, path or "(replay cap reached)"))
            print("   signature=%s cases=%d :: %s" % (sig, n, msg))
        if self.broken and rc == 0:
            for b in self.broken:
                print("CHECK-BROKEN property=%s coverage assertion failed: %s" % (self.pid, b))
            rc = 2
        elif self.broken:
            for b in self.broken:
                print("note: coverage assertion failed (secondary to the violation): %s" % b)
        if not self.replaying and not getattr(self, "only", None) and not os.environ.get("BEX_NO_EVIDENCE"):
            try:
                import jsonschema

                with open(SCHEMA) as f:
                    jsonschema.validate(ev, json.load(f))
            except ImportError:
                pass
            except FileNotFoundError:
                pass
            os.makedirs(EVIDENCE_DIR, exist_ok=True)
            tmp = os.path.join(EVIDENCE_DIR, ".%s.json.tmp" % self.pid)
            with open(tmp, "w") as f:
                json.dump(ev, f, indent=1, sort_keys=True)
            os.replace(tmp, os.path.join(EVIDENCE_DIR, "%s.json" % self.pid))
        print(
            "%s tier=%s seed=%d evaluations=%d distinct=%d states=%d transitions=%d violations=%d known=%d wall=%.1fs rc=%d"
            % (self.pid, self.tier, self.seed, self.evaluations, len(self.distinct), self.states, self.transitions,
               len(self.violations), sum(v["count"] for v in self.known_hits.values()), wall, rc)
        )
        return rc


# ---------------------------------------------------------------------------
# E1: product sweep with a deviation bound
# ---------------------------------------------------------------------------
def sweep(axes, deviation_bound=None, constraint=None):
    """Enumerate dicts over the product of `axes` ({name: [default, alt1, ...]}).

    With deviation_bound=d only tuples in which at most d axes differ from their
    first (default) value are produced, simplest first.  Deterministic.
    """
    names = list(axes)
    if deviation_bound is None:
        for combo in itertools.product(*[axes[n] for n in names]):
            c = dict(zip(names, combo))
            if constraint is None or constraint(c):
                yield c
        return
    for d in range(deviation_bound + 1):
        for dev_axes in itertools.combinations(range(len(names)), d):
            pools = []
            for i, n in enumerate(names):
                pools.append(axes[n][1:] if i in dev_axes else axes[n][:1])
            for combo in itertools.product(*pools):
                c = dict(zip(names, combo))
                if constraint is None or constraint(c):
                    yield c


# ---------------------------------------------------------------------------
# E2: explicit-state search over event histories
# ---------------------------------------------------------------------------
def bfs(enabled, build, canon, invariant, depth, ctx, on_state=None):
    """Breadth-first search.  A state is the history (tuple of events) reaching it.

    build(history)  -> state object (fresh real objects, handlers replayed)
    enabled(state, history) -> iterable of events
    canon(state)    -> hashable canonical form (property relevant fields only)
    invariant(state, history) -> None  (reports violations through ctx itself)
    """
    import collections

    s0 = build(())
    invariant(s0, ())
    seen = {canon(s0)}
    frontier = collections.deque([()])
    ctx.states += 1
    maxd = 0
    while frontier:
        hist = frontier.popleft()
        if len(hist) >= depth:
            continue
        st = build(hist)
        for ev in enabled(st, hist):
            h2 = hist + (ev,)
            nxt = build(h2)
            ctx.transitions += 1
            invariant(nxt, h2)
            k = canon(nxt)
            if k not in seen:
                seen.add(k)
                ctx.states += 1
                maxd = max(maxd, len(h2))
                frontier.append(h2)
                if on_state:
                    on_state(nxt, h2)
    ctx.cov["max_depth"] = max(ctx.cov.get("max_depth", 0), maxd)
    return seen


# ---------------------------------------------------------------------------
# worker pool (spawn; each worker compiles what it needs once)
# ---------------------------------------------------------------------------
def _worker(modname, funcname, inq, outq, env):
    os.environ.update(env)
    try:
        mod = importlib.import_module(modname)
        func = getattr(mod, funcname)
    except Exception:
        outq.put(("fatal", None, traceback.format_exc()))
        return
    while True:
        item = inq.get()
        if item is None:
            break
        idx, task = item
        try:
            outq.put(("ok", idx, func(task)))
        except Exception:
            outq.put(("err", idx, traceback.format_exc()))


def pool_map(modname, funcname, tasks, jobs, threads_per_worker=1, progress=None):
    """Run func(task) for every task in spawned workers; returns results in task order.

    A task that raises inside the harness makes the whole check 'broken' (the
    per-case library exceptions are caught inside func and returned as data).
    """
    tasks = list(tasks)
    if not tasks:
        return []
    jobs = max(1, min(jobs, len(tasks)))
    if jobs == 1:
        mod = importlib.import_module(modname)
        func = getattr(mod, funcname)
        out = []
        for i, t in enumerate(tasks):
            out.append(func(t))
            if progress:
                progress(i + 1, len(tasks))
        return out
    import multiprocessing as mp

    mpc = mp.get_context("spawn")
    inq, outq = mpc.Queue(), mpc.Queue()
    env = {"NUMBA_NUM_THREADS": str(threads_per_worker), "OMP_NUM_THREADS": str(threads_per_worker)}
    procs = [mpc.Process(target=_worker, args=(modname, funcname, inq, outq, env), daemon=True) for _ in range(jobs)]
    for p in procs:
        p.start()
    for i, t in enumerate(tasks):
        inq.put((i, t))
    for _ in procs:
        inq.put(None)
    results = [None] * len(tasks)
    done = 0
    try:
        while done < len(tasks):
            try:
                kind, idx, val = outq.get(timeout=30)
            except Exception:
                if not any(p.is_alive() for p in procs):
                    raise CheckBroken("all workers died with %d/%d tasks done" % (done, len(tasks)))
                continue
            if kind == "fatal":
                raise CheckBroken("worker import failed:\n" + val)
            if kind == "err":
                raise CheckBroken("harness error in task %r:\n%s" % (tasks[idx], val))
            results[idx] = val
            done += 1
            if progress:
                progress(done, len(tasks))
    finally:
        for p in procs:
            p.join(timeout=5)
            if p.is_alive():
                p.terminate()
    return results


def order_by_seed(items, seed):
    """Rotate the visiting order (the set of cases is the same for every seed)."""
    items = list(items)
    if not items:
        return items
    r = seed % len(items)
    return items[r:] + items[:r]


# ---------------------------------------------------------------------------
def _run_with_coverage(mod, ctx, pid, covdir):
    """Diagnostic mode (BEX_COVERAGE=<dir>): which Python lines of bempp_cl and which Numba kernels does this check execute?

    Not part of any verdict; used to find library code no check reaches (see DESIGN C.6).
    """
    import coverage
    import bempp_cl

    os.makedirs(covdir, exist_ok=True)
    cov = coverage.Coverage(data_file=os.path.join(covdir, "%s.cov" % pid), source=[os.path.dirname(os.path.abspath(bempp_cl.__file__))])
    cov.start()
    try:
        rc = mod.run(ctx)
    finally:
        cov.stop()
        cov.save()
        compiled = {}
        try:
            from numba.core.dispatcher import Dispatcher

            for mname, m in list(sys.modules.items()):
                if not mname.startswith("bempp_cl") or m is None:
                    continue
                for name, obj in list(vars(m).items()):
                    if isinstance(obj, Dispatcher) and getattr(obj, "py_func", None) is not None and obj.py_func.__module__ == mname:
                        compiled["%s.%s" % (mname, name)] = len(obj.signatures)
        except Exception as exc:  # noqa: BLE001
            compiled["error"] = repr(exc)
        with open(os.path.join(covdir, "%s.kernels.json" % pid), "w") as f:
            json.dump(compiled, f, indent=0, sort_keys=True)
    return rc


def main(pid, tier, replay, jobs, only=None):
    seed = int(os.environ.get("VERIF_SEED", "0") or 0)
    try:
        mod = importlib.import_module("bex.checks.%s" % pid.lower())
    except ModuleNotFoundError as e:
        print("no check for %s (%s)" % (pid, e))
        return 2
    ctx = Ctx(pid, tier, seed, jobs, level=getattr(mod, "LEVEL", "exploration"), replaying=bool(replay))
    ctx.only = set(only.split(",")) if only else None
    try:
        import bempp_cl

        where = os.path.dirname(os.path.dirname(os.path.abspath(bempp_cl.__file__)))
        if os.path.realpath(where) != os.path.realpath(REPO):
            print("CHECK-BROKEN property=%s bempp_cl is imported from %s, not from %s" % (pid, where, REPO))
            return 2
    except ImportError as e:
        print("CHECK-BROKEN property=%s cannot import bempp_cl: %s" % (pid, e))
        return 2
    try:
        import numba

        numba.set_num_threads(min(int(getattr(mod, "THREADS", 2)), numba.config.NUMBA_NUM_THREADS))
    except Exception:  # noqa: BLE001
        pass
    covdir = os.environ.get("BEX_COVERAGE")
    if covdir and not replay:
        return _run_with_coverage(mod, ctx, pid, covdir)
    try:
        if replay:
            with open(replay) as f:
                doc = json.load(f)
            print("replaying %s :: %s" % (doc.get("signature"), doc.get("message")))
            mod.replay(ctx, doc["case"])
            rc = 0
            for k, v in ctx.known_hits.items():
                print("KNOWN-FINDING: property=%s %s" % (pid, v["entry"].get("what", k)))
            for sig, case, msg in ctx.violations:
                print("VIOLATION property=%s replay=%s" % (pid, replay))
                print("   signature=%s :: %s" % (sig, msg))
                rc = 1
            if rc == 0:
                print("replay: case passes")
            return rc
        return mod.run(ctx)
    except CheckBroken as e:
        print("CHECK-BROKEN property=%s %s" % (pid, e))
        return 2
    except Exception:
        traceback.print_exc()
        print("CHECK-BROKEN property=%s internal error" % pid)
        return 2
