"""Host execution of the OpenCL-C kernel functions of bempp_cl/core/sources/include (harness for C20).

The header is compiled by clang's OpenCL C front end for the host (so swizzles, vector arithmetic and implicit
widening keep OpenCL semantics); one non-inline wrapper per `inline void` function found in kernels.h takes plain
pointers.  The OpenCL builtins the kernels use are supplied by a small C++ file through libm.
"""

import ctypes
import os
import re
import subprocess

INCLUDE = os.path.join(os.environ.get("BEX_REPO") or "/repo", "bempp_cl/core/sources/include")

BUILTINS_CPP = r"""
#include <cmath>
template <typename T, int N> struct V { typedef T type __attribute__((ext_vector_type(N))); };
#define DEFV(T, N) typedef V<T, N>::type T##N;
DEFV(float, 3) DEFV(float, 4) DEFV(float, 8) DEFV(float, 16) DEFV(double, 3) DEFV(double, 4) DEFV(double, 8) DEFV(double, 16)
#define ELEMENTWISE(NAME, EXPR, T, N) T##N NAME(T##N x) { T##N r; for (int i = 0; i < N; ++i) { T v = x[i]; r[i] = EXPR; } return r; }
#define ALLN(NAME, EXPR, T) ELEMENTWISE(NAME, EXPR, T, 4) ELEMENTWISE(NAME, EXPR, T, 8) ELEMENTWISE(NAME, EXPR, T, 16)
// scalar overloads would collide with libm's C functions of the same name: give them the Itanium-mangled symbol explicitly
#define SCALAR(NAME, LEN, EXPR) \
  float bex_##NAME##_f(float v) __asm__("_Z" #LEN #NAME "f"); float bex_##NAME##_f(float v) { return EXPR; } \
  double bex_##NAME##_d(double v) __asm__("_Z" #LEN #NAME "d"); double bex_##NAME##_d(double v) { return EXPR; }
#define BOTH(NAME, LEN, EXPR) SCALAR(NAME, LEN, EXPR) ALLN(NAME, EXPR, float) ALLN(NAME, EXPR, double)
BOTH(sqrt, 4, std::sqrt(v))
BOTH(rsqrt, 5, (decltype(v))1 / std::sqrt(v))
BOTH(exp, 3, std::exp(v))
BOTH(cos, 3, std::cos(v))
BOTH(sin, 3, std::sin(v))
#define GEOM(T) \
  T dot(T##3 a, T##3 b) { return a[0]*b[0] + a[1]*b[1] + a[2]*b[2]; } \
  T length(T##3 a) { return std::sqrt(a[0]*a[0] + a[1]*a[1] + a[2]*a[2]); } \
  T distance(T##3 a, T##3 b) { T##3 d = a - b; return std::sqrt(d[0]*d[0] + d[1]*d[1] + d[2]*d[2]); }
GEOM(float) GEOM(double)
"""


def parse_functions(header_text):
    """[(name, [param declarations])] for every `inline void name(...)` in the header."""
    out = []
    for m in re.finditer(r"inline\s+void\s+(\w+)\s*\(([^)]*)\)", header_text):
        params = [" ".join(p.split()) for p in m.group(2).split(",")]
        out.append((m.group(1), params))
    return out


def classify(name, params):
    """(lanes, nres) of a Green's-function kernel; None for helpers."""
    if name.startswith("diff_vec"):
        return None
    m = re.search(r"_(novec|vec4|vec8|vec16)$", name)
    if not m or len(params) != 6:
        return None
    lanes = {"novec": 1, "vec4": 4, "vec8": 8, "vec16": 16}[m.group(1)]
    res = params[-1]
    if "[3][2]" in res:
        nres = 6
    elif "[2]" in res or name.startswith("helmholtz"):
        nres = 2
    else:
        nres = 1
    return lanes, nres


def wrapper_source(funcs):
    src = ['#include "kernels.h"', '#include "p0_discontinuous_shapeset.h"', '#include "p1_discontinuous_shapeset.h"', '#include "rwg0_shapeset.h"',
           '#include "snc0_shapeset.h"', ""]
    for name, params in funcs:
        c = classify(name, params)
        if c is None:
            continue
        lanes, nres = c
        T = "REALTYPE" if lanes == 1 else "REALTYPE%d" % lanes
        src.append("void w_%s(__global REALTYPE* in, __global REALTYPE* kp, __global REALTYPE* out) {" % name)
        src.append("  REALTYPE3 tp = (REALTYPE3)(in[0], in[1], in[2]); REALTYPE3 tn = (REALTYPE3)(in[3], in[4], in[5]);")
        if lanes == 1:
            src.append("  REALTYPE3 yp = (REALTYPE3)(in[6], in[7], in[8]); REALTYPE3 yn = (REALTYPE3)(in[9], in[10], in[11]);")
            src.append("  REALTYPE res[6]; for (int i = 0; i < 6; ++i) res[i] = M_ZERO;")
            if nres == 6:
                src.append("  %s(tp, yp, tn, yn, kp, (REALTYPE (*)[2]) res);" % name)
            else:
                src.append("  %s(tp, yp, tn, yn, kp, res);" % name)
            src.append("  for (int r = 0; r < %d; ++r) out[r] = res[r];" % nres)
        else:
            src.append("  %s yp[3]; %s yn[3]; %s res[6];" % (T, T, T))
            src.append("  for (int c = 0; c < 3; ++c) for (int l = 0; l < %d; ++l) { ((REALTYPE*)&yp[c])[l] = in[6 + 6 * l + c]; ((REALTYPE*)&yn[c])[l] = in[6 + 6 * l + 3 + c]; }" % lanes)
            src.append("  for (int r = 0; r < 6; ++r) for (int l = 0; l < %d; ++l) ((REALTYPE*)&res[r])[l] = M_ZERO;" % lanes)
            if nres == 6:
                src.append("  %s(tp, yp, tn, yn, kp, (%s (*)[2]) res);" % (name, T))
            else:
                src.append("  %s(tp, yp, tn, yn, kp, res);" % name)
            src.append("  for (int r = 0; r < %d; ++r) for (int l = 0; l < %d; ++l) out[r * %d + l] = ((REALTYPE*)&res[r])[l];" % (nres, lanes, lanes))
        src.append("}")
    for sh, n in (("p0_discontinuous", 1), ("p1_discontinuous", 3), ("rwg0", 6), ("snc0", 6)):
        src.append("void w_%s_evaluate(__global REALTYPE* in, __global REALTYPE* out) {" % sh)
        src.append("  REALTYPE2 p = (REALTYPE2)(in[0], in[1]); REALTYPE res[6]; for (int i = 0; i < 6; ++i) res[i] = M_ZERO;")
        src.append("  %s_evaluate(&p, res); for (int i = 0; i < %d; ++i) out[i] = res[i];" % (sh, n))
        src.append("}")
    return "\n".join(src) + "\n"


def build(workdir, precision):
    """Compile kernels.h (+ wrappers) for the host; returns (ctypes library, [(name, lanes, nres)])."""
    os.makedirs(workdir, exist_ok=True)
    header = open(os.path.join(INCLUDE, "kernels.h")).read()
    funcs = parse_functions(header)
    kernels = [(n, ) + classify(n, p) for n, p in funcs if classify(n, p) is not None]
    tag = "p%d" % precision
    cl = os.path.join(workdir, "wrappers_%s.cl" % tag)
    with open(cl, "w") as f:
        f.write(wrapper_source(funcs))
    cpp = os.path.join(workdir, "builtins.cpp")
    with open(cpp, "w") as f:
        f.write(BUILTINS_CPP)
    o1, o2, so = os.path.join(workdir, "w_%s.o" % tag), os.path.join(workdir, "b.o"), os.path.join(workdir, "libocl_%s.so" % tag)
    cmd1 = ["clang", "-x", "cl", "-cl-std=CL1.2", "-Xclang", "-finclude-default-header", "-DPRECISION=%d" % precision, "-DVEC_LENGTH=4", "-I", INCLUDE,
            "-O1", "-ffp-contract=off", "-fPIC", "-Wno-psabi", "-Wno-everything", "-Dinline=static inline", "-c", cl, "-o", o1]
    cmd2 = ["clang++", "-std=c++17", "-O1", "-ffp-contract=off", "-fPIC", "-Wno-psabi", "-c", cpp, "-o", o2]
    cmd3 = ["clang++", "-shared", o1, o2, "-lm", "-o", so]
    for cmd in (cmd1, cmd2, cmd3):
        r = subprocess.run(cmd, capture_output=True, text=True)
        if r.returncode != 0:
            raise RuntimeError("build of the OpenCL host library failed: %s\n%s" % (" ".join(cmd), r.stderr[-3000:]))
    nm = subprocess.run(["nm", "-u", so], capture_output=True, text=True).stdout
    return ctypes.CDLL(so), kernels, nm
