"""Regenerates MANIFEST.json from the table below (run: /venv/bin/python -m bex.manifest_gen)."""
import json
import os

ROOT = os.path.dirname(os.path.dirname(os.path.abspath(__file__)))

CHECKS = {}   # pid -> dict(category, text, design_ref, note, technique)
PENDING = {}  # pid -> reason


def check(pid, category, text, design_ref, note, technique):
    CHECKS[pid] = dict(category=category, text=text, design_ref=design_ref, note=note, technique=technique)


check("C12", "exploration",
      "Complete enumeration of the finite claim: every triangle order 1..20 x every monomial of degree <= n, every Gauss "
      "order 1..30 x degrees <= 2n-1, every singular rule order x every 4-variable monomial of degree <= 2n-4, every one of "
      "the 36 edge / 9 vertex remap combinations x 3 geometries x orders 2..9 (11) against exact rationals and an "
      "independently computed reference integral. Nothing is sampled; the space is finite and is covered. Request histories: for every "
      "rule family every ordered pair (thorough: triple) of orders, and interleavings with the other families, must return bitwise the "
      "rule a fresh interpreter returns (table computed ascending and descending in separate interpreters).",
      "DESIGN.md 4/C12",
      "Trusted: exact rational arithmetic; reference 1/|x-y| integrals (analytic triangle potential + graded Gauss, "
      "self-checked at two resolutions and against the Eibert-Hansen closed form on every run).",
      "exhaustive enumeration of (rule, order, monomial/remap) tuples against exact values")

check("C11", "model_checking",
      "Explicit-state search over grids: states are real Grid objects reached from catalogue meshes and from ALL sub-complexes of "
      "small base meshes by bounded sequences of constructor steps (relabel, dtype/order, refine, barycentric, union, segment "
      "extraction); in every state every topology/geometry table is compared with a brute-force O(n^2) reference, and every "
      "constructor step with the statement of what it preserves. All 9x local edge classes and 9 vertex classes are asserted covered. "
      "grid_from_segments additionally for every domain subset and every single / pair / all-but-one element selection on meshes with more "
      "than 8 vertices.",
      "DESIGN.md 4/C11",
      "Trusted: the set-based reference topology (bex/models/topo_ref.py) and textbook geometry formulas. Duplicate elements are outside the alphabet.",
      "explicit-state BFS over constructor histories on the real Grid class, invariant = agreement with reference topology")

check("C09", "model_checking",
      "Exhaustive lattice of spaces (mesh x kind x every domain-subset / every element subset on small meshes x all option "
      "combinations x swapped normals); each constructed space is a state whose every global basis function is evaluated through "
      "the public path and compared with the reference meaning of the options: conformity across interior edges, partition of unity, "
      "local2global/global2local coherence, entity attachment, DOF count, linear independence.",
      "DESIGN.md 4/C09 and Appendix B.1",
      "Trusted: reference semantics of segments/include_boundary_dofs/truncate_at_segment_edge (Appendix B.1); two recorded findings "
      "(empty selections, truncated BC/RBC) are listed in known_findings.json.",
      "exhaustive enumeration of the space-option lattice on small meshes against a reference model of the spaces")

check("C10", "exploration",
      "Exhaustive over a finite alphabet: for every mesh of the list, every primal kind with a barycentric representation, "
      "whole-grid/segment/element selections and all option combinations, EVERY unit coefficient vector is compared pointwise "
      "(7 points) on EVERY one of the 6 sub-triangles of every support element; the sub-triangle-to-coarse map is solved from "
      "geometry so the 6e+j tables are under test. DUAL1 nodal values at every barycentric node; 8 primal/dual mass matrices "
      "against an exact degree-4 rule. Linearity makes unit vectors equal to all coefficient vectors.",
      "DESIGN.md 4/C10",
      "Trusted: barycentric grid geometry (checked by C11), numpy least squares for the affine map.",
      "exhaustive enumeration (mesh x space x element x sub-triangle x unit vector) against geometry-derived reference")

check("C01", "exploration",
      "Exhaustive lattice mesh x transformation x (regular, singular) order pair x affine basis {1,x,y,z} (exact reduction of 'all "
      "affine u' by linearity) on benign closed polyhedra: convex, non-convex, genus 1, two components, nested components; six real "
      "operator assemblies per tuple; residual of both Calderon identities against quadrature-class thresholds and a no-growth "
      "ladder condition. Coverage of all 9+9 singular remap classes reachable on oriented surfaces is asserted.",
      "DESIGN.md 4/C01",
      "Trusted: the identities themselves; QUAD-class thresholds (1e-6 at the top of the order lattice). Data outside the mesh lattice "
      "(extreme aspect ratios) not covered.",
      "exhaustive lattice sweep (mesh x labelling/motion x order pair) against the analytic Calderon identities")

check("C02", "exploration",
      "Exhaustive lattice mesh x density representation (whole-grid P1/DP0, DP1/DP0, sum over segment-restricted spaces, the same "
      "with one segment physically reversed and flagged in swapped_normals, whole-grid continuous P1 on such a grid) x regular order x {1,x,y,z} x every lattice point of "
      "the doubled bounding box (plus an inner lattice) that the reference places at least one element diameter from the surface; "
      "inside/outside by solid-angle winding number.",
      "DESIGN.md 4/C02",
      "Trusted: the representation formula; reference point-triangle distance and winding number. Thresholds are the property's (1e-6 for order>=12).",
      "exhaustive lattice sweep (mesh x representation x order x evaluation lattice) against Green's representation formula")

check("C16", "model_checking",
      "Three layers on the real code. A: the colouring invariant (same colour => disjoint local2global entries, zero-multiplier "
      "entries included) on every space of the C09 lattice and its localised/barycentric forms. B: the launches the library really "
      "makes for 11 boundary operators and 7 potentials/far fields are captured; the kernels' own Python source (py_func) is run "
      "with instrumented shared arrays; ALL pairs of iterations of every launch are checked for conflicting accesses; ALL "
      "interleavings of 2 and 3 iterations are enumerated by an explicit-state search at load/store granularity (terminal memory "
      "must equal the sequential one bitwise); model schedules with a bounded number of preemptions are replayed on the real "
      "py_func under a baton scheduler and must reproduce the recorded trace and the predicted memory. B-history: sequences of "
      "assemblies with 1/2/16 threads on the SAME space objects (depth 2/3, states = set of thread counts used so far + current "
      "count); the launches of the last step are race-checked pairwise (lazily filled per-space caches must not depend on the thread "
      "count in force at first use). C: compiled kernels with "
      "1/2/7/16 threads, bitwise equality (sampling, cross-check only).",
      "DESIGN.md 4/C16",
      "Trusted: CPython executes the kernel source with the same data flow as the compiled code (layer C cross-checks); weak memory "
      "orderings and the OpenMP runtime are outside the model.",
      "stateless/explicit-state interleaving exploration of prange bodies under a controlled scheduler + exhaustive colouring lattice")

check("C17", "exploration",
      "Exhaustive sweep mesh x operator family (Laplace/Helmholtz real+complex/modified Helmholtz/Maxwell) x operator x space pair "
      "(whole grid, segments that are NOT a prefix of the element numbering, normals flipped on a proper subset of the domains, "
      "barycentric) x global quadrature order x near-field "
      "representation, with exafmm replaced by an exact direct summation: the full FMM-mode matrix (all unit vectors) and a complex "
      "vector against the dense-mode matrix; all potential operators likewise; two-grid operators; thorough tier also reproduces the "
      "shipped fmm_*.npy vectors within the tests' tolerance.",
      "DESIGN.md 4/C17",
      "Trusted: the exact-summation stub (bex/stubs/exafmm, independent of fmm/helpers.py). Says nothing about a real FMM's accuracy.",
      "exhaustive sweep over operator x space x option tuples against the dense-mode reference with an exact far-field stub")

check("C18", "model_checking",
      "Explicit-state BFS over histories of real API calls {create, create+assemble, observe, strong_form, set global quadrature, set "
      "global FMM order, mutate an explicit parameter object, clear_fmm_cache, new spaces, mass_matrix} on two operator slots, from the "
      "pristine state and from a state with non-default globals, depth 3 (thorough: 8 operator kinds instead of 5 and a wider alphabet); every transition replays the history "
      "on fresh real objects after reset(); states are de-duplicated by the reference model's state (globals, parameter values, slot "
      "facts, predicted cache contents); every observation must equal the table of what a fresh interpreter computes (two fresh "
      "interpreters, opposite orders, must agree); repeated weak_form()/mass_matrix() must return the identical object. Second layer: "
      "every public boundary / potential / far-field factory x wavenumber class (none, real, complex, purely imaginary) assembled with an "
      "explicit parameter object under three global settings (before and after construction), with the same values set globally, and in "
      "single and double precision: all must agree (orders are asserted observable for every non-sparse factory).",
      "DESIGN.md 4/C18 and B.4",
      "Trusted: the inventory of process-wide mutable state (DESIGN 2) as the argument that the canonical form merges only states with "
      "equal futures; lenient reading of 'parameter object given at construction' (values at construction or at first assembly).",
      "explicit-state search over API-call histories with replay on fresh objects against a fresh-interpreter oracle")

check("C14", "model_checking",
      "Exhaustive enumeration of a typed term language: every term with <=2 (thorough: 3) operator nodes over a pool of real objects "
      "(8 boundary operators incl. complex/sparse/zero, 4 blocked incl. generalized, 8 discrete operator classes, 4 grid functions in "
      "primal and dual representation, 4 potential operators, 7 real/complex Python and numpy scalars) and the productions "
      "+ - += -= neg s* *s * @ / .T .H apply; a reference type checker decides well-typedness, a dense-matrix interpreter the value; "
      "well-typed terms must evaluate (to_dense, matvec on all unit vectors, complex vector, matmat, coefficients) to the reference, "
      "ill-typed ones must not produce numbers or exception objects. The pool has different spaces with equal dof counts so that "
      "unchecked combinations produce numbers, not shape errors. Blocked construction: BFS over histories of blk[i,j] = op assignments "
      "(2x2, 8 operators, depth 2 / 3) and all 4096 2x2 GeneralizedBlockedOperator arrangements against the typed model (accept iff "
      "row range/dual and column domain agree; complete ones assembled and compared block by block).",
      "DESIGN.md 4/C14 and B.2",
      "Trusted: typing rules B.2; transposes of composite/inverse/zero discrete operators (scipy's generic fallback, no rmatvec) are declined.",
      "exhaustive enumeration of bounded-depth expression trees against a typed reference interpreter")

check("C13", "exploration",
      "Exhaustive sweep: every ordered pair of {DP0,DP1,P1,RWG,SNC} spaces (whole grid and segment variants) of equal codomain x "
      "every quadrature order 1..20 that integrates the product exactly, against the exact Gram matrix of the represented basis "
      "functions; SPD / sum-is-area consequences; Laplace-Beltrami against per-element exact stiffness; projection of affine / "
      "constant-tangential members of each space through all 16 callable-decorator flag combinations; integrate, l2_norm, projections, "
      "evaluate_on_vertices, evaluate_on_element_centers for every unit coefficient vector (linearity => all vectors); "
      "MultiplicationOperator in component and inner mode. Explicit-state search over GridFunction method-call histories (coefficients, "
      "projections onto its own and other dual spaces, integrate, l2_norm, evaluate; depth 3/4) from every construction mode (coefficients, "
      "projections with each dual space): every observation against direct quadrature of the represented function.",
      "DESIGN.md 4/C13 and B.5",
      "Trusted: degree-4 exact rule (Dunavant) applied to basis functions evaluated through the public path (validated by C09).",
      "exhaustive sweep (space pair x order x unit vector) against exact L2 quantities")

check("C04", "exploration",
      "Exhaustive sweep: mesh x operator (one real and one complex kernel for each of the regular/singular assembler functions: "
      "default scalar, three hypersingular, two Maxwell; both sparse kernels) x independently chosen test and trial space variants "
      "sharing the local basis (whole grid, a segment, its complement, alternating elements; all P1/RWG/SNC option combinations) x "
      "order pairs: A_S must equal T_test' A_D T_trial with A_D on the full-grid element-wise space and T = map_to_full_grid, and "
      "for DP spaces literally the sub-block. Refinement: uniform, twice uniform and barycentric refinement with geometric "
      "prolongation along an order ladder.",
      "DESIGN.md 4/C04",
      "Trusted: map_to_full_grid as the coefficient map (its structure is validated through C09's function evaluation); QUAD-class "
      "thresholds for the refinement part (1e-5 at the top of the ladder, must at least halve from the bottom).",
      "exhaustive sweep (operator x test variant x trial variant) against the congruence identity")

check("C06", "exploration",
      "Exhaustive sweep mesh x {Laplace, Helmholtz real/complex, modified Helmholtz} x independently chosen P1/DP1 test and trial "
      "variants (whole grid, segments, boundary-dof/truncation options, swapped normals) x order pairs: the hypersingular matrix "
      "against sum_c C_c' V0 C_c -/+ k^2 sum_c N_c' V1 N_c; the Maxwell electric field over SNC x RWG variants against "
      "-ik sum R_c' V1 R_c - (1/ik) D' V0 D; W*1 = 0 on closed surfaces; complex symmetry of E and H along a singular-order ladder.",
      "DESIGN.md 4/C06",
      "Trusted: C, N from geometry; R, D from space.evaluate at element vertices (validated by C09); V0, V1 are the library's own single-layer matrices.",
      "exhaustive sweep against algebraic decompositions built from reference sparse maps")

check("C05", "exploration",
      "Exhaustive lattice: mesh x scalar space pair x polar lattice of wavenumbers (|k|D in {1e-3,1e-2,1e-1,1} x up to 8 arguments incl. "
      "real, imaginary, complex) x order pairs for the three entrywise bounds (hard inequalities that hold for the discrete sums); "
      "omega lattice x all four boundary operators and both potentials for Helmholtz(i w) = modified(w) and the vanishing-real-part "
      "limit; k -> -conj(k) conjugates; symmetry of V, W and K'=K^T: regular parts to rounding, whole matrices along a singular-order ladder.",
      "DESIGN.md 4/C05",
      "Trusted: the elementary inequalities |e^z-1-z|<=|z|^2 and sum (n-1)|z|^n/n! <= |z|^2 for |z|<=1; positivity/interiority of the "
      "rules used is asserted on every run.",
      "exhaustive lattice sweep against entrywise inequalities and exact identities")

check("C08", "exploration",
      "Exhaustive sweep mesh x every potential and far-field operator x accepted spaces (whole grid, segment, swapped normals) x "
      "wavenumber lattice (real, complex, negative real part) x orders x every unit coefficient vector (linearity => all real and "
      "complex densities) x fixed off-surface points / directions: values against closed-form kernel sums over the library's own "
      "quadrature points (rounding); PDE residuals by central differences; far field against r exp(-ikr) potential(r x) at two radii "
      "(error must fall like 1/r) and translation covariance.",
      "DESIGN.md 4/C08",
      "Trusted: textbook Green's functions; quadrature rule (C12) and basis evaluation (C09). Points outside the lattice not covered.",
      "exhaustive sweep against closed-form kernel sums, finite-difference PDE residuals and asymptotic limits")

check("C07", "exploration",
      "Exhaustive sweep over ordered pairs of disjoint grids (closed/closed, open/open, segmented/closed, screen/fan) x {single, "
      "double layer} x {Laplace, Helmholtz real and complex, modified Helmholtz} x test/trial space kinds (incl. segment spaces and "
      "trial spaces with normals flipped on a proper subset of the domains) x "
      "orders {2,4,6}: every entry of the two-grid boundary matrix against sum_q w_q J psi_i(x_q) P[phi_j](x_q) with the library's "
      "potential operator at grid.map_to_point_cloud points (rounding); Maxwell magnetic field likewise with the x n trace; the "
      "electric field along the order ladder (quadrature class, flux-free test functions on open grids).",
      "DESIGN.md 4/C07",
      "Trusted: quadrature rule (C12), basis evaluation (C09); the potentials themselves are validated by C08.",
      "exhaustive sweep (grid pair x operator x space pair x order) against Galerkin-tested potentials")

check("C03", "model_checking",
      "(a),(b) exhaustive sweep mesh x every operator family/space combination x rigid motions x scalings (with k/s) against the "
      "homogeneity table; (c) explicit-state BFS over the labelling Cayley graph {swap elements, rotate the local vertex order of one "
      "element by 1 or 2, reverse one element and flag it in swapped_normals, transpose vertex labels} to depth 2 (thorough 3) from two "
      "initial labellings on edge2/bow2 and coarse generators on larger meshes; in every state every operator is assembled and compared "
      "with D P A P' D, where P and D are derived by matching the represented basis functions geometrically. Regular parts to rounding, "
      "singular parts quadrature-class at two singular orders (self-calibrated against the library's own order ladder). All 18 edge and 9 "
      "vertex remap classes are asserted covered. The same graph on a junction grid (three triangles around one edge) with segment spaces; "
      "orientation flips (domain stored reversed + swapped_normals) for dual-grid spaces, assembled in FMM mode with the exact stub.",
      "DESIGN.md 4/C03",
      "Trusted: geometric matching of basis functions (evaluated through the public path); symmetric point set of the order-4 triangle rule; "
      "the pure-Python Duffy rule generator is memoised during the run (copied on use).",
      "explicit-state search over the labelling group + exhaustive sweep over motions/scalings, invariant = equivariance")

check("C15", "exploration",
      "Exhaustive sweep mesh x operator {SPD single layer, SPD identity, 1/2 I + K, complex Helmholtz single layer, blocked real, blocked "
      "complex, generalized blocked} x right-hand sides A*e_j for every j plus a complex combination x {lu, lu with precomputed factors, "
      "gmres, cg} x tolerance x restart x maxiter x use_strong_form x return_residuals x return_iteration_count against the dense solve "
      "of the reference matrix: info, true residual, error bound, result spaces, shape of the returned tuple, residual/iteration bookkeeping.",
      "DESIGN.md 4/C15 and B.3",
      "Trusted: numpy dense solve; acceptance constants of B.3.",
      "exhaustive sweep over solver option tuples against a dense reference solve")

check("C19", "exploration",
      "Exhaustive enumeration: ALL maps elements -> {0,1,5,7,1000} for meshes with <=4 elements (1+25+625 vectors) plus structured "
      "patterns on cube12 (all-zero, all-equal, non-contiguous, > 2^16) x {.msh, .vtu, .ply} x binary/ascii, read back with import_grid "
      "and independently with meshio; grid functions: 5 space kinds x real/complex unit and dense coefficient vectors x data_type "
      "{node, element, None} x 7 transformations x binary/ascii against evaluate_on_vertices / evaluate_on_element_centers.",
      "DESIGN.md 4/C19",
      "Trusted: meshio as the independent reader (its own ASCII $ElementData bug with numpy 2 is detected and declined); one recorded "
      "finding (all-zero domain indices).",
      "exhaustive enumeration of domain-index vectors and export option tuples against an independent reader")

check("C20", "translation_validation",
      "Programs = every inline Green's-function kernel discovered by parsing kernels.h (12 kernels x {novec, vec4, vec8, vec16}) x "
      "{double, single} plus the four shapeset headers x 2 (104 programs; the list is discovered, so an added or removed function "
      "changes the coverage assertion). Each is compiled from the current header by clang's OpenCL C front end for the host and "
      "executed on the lattice distance 1e-3..1e3 x 26 directions x 14 normals x wavenumber lattice (real/complex, both signs of the "
      "imaginary part), with a different input in every vector lane, and compared with the Numba kernel selected for the same kernel "
      "type (mapping cross-checked against select_cl_kernel and select_numba_kernels) and with an independent closed form.",
      "DESIGN.md 4/C20 and A.3",
      "Trusted: clang's OpenCL C front end and libm-based builtins stand in for a device compiler; native_* precision, device "
      "compilers and the work-group logic of the .cl assembly kernels are not reachable without an OpenCL runtime.",
      "exhaustive input-lattice execution of every translated kernel against its source-of-truth counterpart")

ALL = ["C%02d" % i for i in range(1, 21)]


def main():
    checks = []
    for pid in ALL:
        if pid not in CHECKS:
            continue
        c = CHECKS[pid]
        checks.append({
            "property_id": pid,
            "quick_cmd": "bin/check %s --tier quick" % pid,
            "thorough_cmd": "bin/check %s --tier thorough" % pid,
            "evidence_file": "/verif/evidence/%s.json" % pid,
            "replay_cmd_template": "bin/check %s --replay {path}" % pid,
            "engine": "bex",
            "level_claimed": {"category": c["category"], "text": c["text"], "design_ref": c["design_ref"]},
            "level_note": c["note"],
            "technique": c["technique"],
        })
    na = [{"property_id": pid, "reason": PENDING.get(pid, "check not built yet (work in progress; see DESIGN.md 4/%s for the plan)" % pid)}
          for pid in ALL if pid not in CHECKS]
    man = {
        "version": 1,
        "setup_cmd": "bin/setup",
        "hooks": {
            "guard": "BEMPP_CL_VERIF",
            "enable": "bin/check exports BEMPP_CL_VERIF=1; no hook code is needed in /repo (all seams are public API, py_func, sys.path)",
            "baseline_off_cmd": "cd /repo && /venv/bin/python -m pytest -ra -q -p no:cacheprovider --timeout=900 --continue-on-collection-errors",
            "source_commits": [],
            "add_only": True,
        },
        "engines": [{
            "name": "bex",
            "path": "/verif/bex",
            "serves_properties": sorted(CHECKS),
            "kind_free_text": "hand-written bounded exhaustive explorer for Python: E1 product/deviation-bounded sweeps, E2 explicit-state "
                              "BFS over API-call histories replayed on fresh objects, E3 interleaving exploration of prange bodies "
                              "(py_func under a baton scheduler) - all against reference models that import nothing from bempp_cl",
        }],
        "checks": checks,
        "not_applicable": na,
        "notes": "See DESIGN.md. known_findings.json lists recorded defects; seeded/ holds confirmed property-breaking patches.",
    }
    with open(os.path.join(ROOT, "MANIFEST.json"), "w") as f:
        json.dump(man, f, indent=1)
    try:
        import jsonschema
        jsonschema.validate(man, json.load(open("/root/.vp/MANIFEST.schema.json")))
        print("MANIFEST.json valid; claimed:", sorted(CHECKS))
    except ImportError:
        print("written (jsonschema not importable)")


if __name__ == "__main__":
    main()
