"""Reference values for quadrature checks (independent of the library's tables).

* exact monomial integrals over the reference triangle / interval / product of two triangles
* reference values of  I(T,T') = int_T int_T' 1/|x-y| dy dx  for coincident, edge-adjacent and
  vertex-adjacent flat triangles: analytic inner potential of a uniform triangle (Wilton et al. 1984)
  + outer integral by a tensor Gauss-Legendre rule (numpy's leggauss, not the library's tables) on a mesh
  graded geometrically towards the shared edge and its end points.  The coincident case is also
  available in closed form (Eibert & Hansen 1995) and the two are cross-checked.
"""

from fractions import Fraction
from math import factorial

import numpy as np


def tri_monomial(a, b):
    """int over reference triangle {x,y>=0, x+y<=1} of x^a y^b = a! b! / (a+b+2)!"""
    return Fraction(factorial(a) * factorial(b), factorial(a + b + 2))


def interval_monomial(k):
    return Fraction(1, k + 1)


def monomials_upto(deg, nvars):
    """All exponent tuples of total degree <= deg."""
    if nvars == 1:
        for k in range(deg + 1):
            yield (k,)
        return
    for k in range(deg + 1):
        for rest in monomials_upto(deg - k, nvars - 1):
            yield (k,) + rest


# ---------------------------------------------------------------------------
def triangle_potential(x, P):
    """int_T 1/|x-y| dS(y) for flat triangle P (3x3 rows = vertices), x: (N,3). Analytic (Wilton 1984)."""
    x = np.atleast_2d(x)
    p0, p1, p2 = P
    n = np.cross(p1 - p0, p2 - p0)
    n = n / np.linalg.norm(n)
    d = (x - p0) @ n  # signed height
    rho = x - np.outer(d, n)
    ad = np.abs(d)
    out = np.zeros(len(x))
    for a, b in ((p0, p1), (p1, p2), (p2, p0)):
        L = np.linalg.norm(b - a)
        lh = (b - a) / L
        uh = np.cross(lh, n)  # outward in-plane normal for counter-clockwise (w.r.t. n) triangles
        lp = (b - rho) @ lh
        lm = (a - rho) @ lh
        P0 = (a - rho) @ uh
        R02 = P0**2 + d**2
        Rp = np.sqrt(lp**2 + R02)
        Rm = np.sqrt(lm**2 + R02)
        # stable R + l:  for l < 0 use R0^2 / (R - l)
        with np.errstate(divide="ignore", invalid="ignore"):
            sp = np.where(lp >= 0, Rp + lp, R02 / (Rp - lp))
            sm = np.where(lm >= 0, Rm + lm, R02 / (Rm - lm))
            lg = np.log(sp / sm)
            term = np.where(R02 < 1e-290, 0.0, P0 * lg)
            at = np.arctan2(P0 * lp, R02 + ad * Rp) - np.arctan2(P0 * lm, R02 + ad * Rm)
        out += term - ad * at
    return out


def _graded_breaks(sigma, levels):
    """Break points on [0,1] graded towards 0."""
    return np.array([0.0] + [sigma**k for k in range(levels, -1, -1)])


def _graded_breaks_both(sigma, levels):
    h = _graded_breaks(sigma, levels) / 2
    return np.concatenate([h, (1 - h[::-1])[1:]])


def integrate_graded(A, B, C, f, p=16, sigma=0.25, levels=22):
    """int over triangle (A,B,C) of f, mesh graded towards edge AB and towards A and B.

    x = A + beta (1-v) (B-A) + v (C-A),  beta, v in (0,1),  dS = 2|T| (1-v) dbeta dv.
    """
    A, B, C = (np.asarray(z, dtype=float) for z in (A, B, C))
    area2 = np.linalg.norm(np.cross(B - A, C - A))
    g, w = np.polynomial.legendre.leggauss(p)
    g = (g + 1) / 2
    w = w / 2
    vb = _graded_breaks(sigma, levels)
    bb = _graded_breaks_both(sigma, levels)
    # build all points at once
    v_pts = (vb[:-1, None] + np.diff(vb)[:, None] * g[None, :]).ravel()
    v_w = (np.diff(vb)[:, None] * w[None, :]).ravel()
    b_pts = (bb[:-1, None] + np.diff(bb)[:, None] * g[None, :]).ravel()
    b_w = (np.diff(bb)[:, None] * w[None, :]).ravel()
    total = 0.0
    for vi, wv in zip(v_pts, v_w):
        X = A[None, :] + (b_pts * (1 - vi))[:, None] * (B - A)[None, :] + vi * (C - A)[None, :]
        total += wv * (1 - vi) * np.dot(b_w, f(X))
    return area2 * total


def coincident_closed_form(P):
    """Eibert & Hansen (1995): int_T int_T 1/|x-y| = -(4 A^2/3) sum_i ln(1 - l_i/s)/l_i."""
    p0, p1, p2 = np.asarray(P, dtype=float)
    a, b, c = np.linalg.norm(p1 - p2), np.linalg.norm(p0 - p2), np.linalg.norm(p0 - p1)
    s = (a + b + c) / 2
    A = np.linalg.norm(np.cross(p1 - p0, p2 - p0)) / 2
    return -(4 * A * A / 3) * sum(np.log(1 - l / s) / l for l in (a, b, c))


def singular_reference(T, Tp, kind, p=16, levels=22):
    """Reference int_T int_T' 1/|x-y|.  T, Tp: 3x3 arrays of vertices (rows).

    kind = 'coincident' (T == Tp), 'edge' (T[0],T[1] is the shared edge), 'vertex' (T[0] shared).
    """
    T = np.asarray(T, dtype=float)
    Tp = np.asarray(Tp, dtype=float)
    f = lambda X: triangle_potential(X, Tp)  # noqa: E731
    if kind == "coincident":
        G = T.mean(axis=0)
        return sum(integrate_graded(T[i], T[(i + 1) % 3], G, f, p=p, levels=levels) for i in range(3))
    return integrate_graded(T[0], T[1], T[2], f, p=p, levels=levels)
