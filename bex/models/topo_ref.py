"""Brute-force topology and geometry of a triangle soup (reference model, pure Python/NumPy).

Nothing here imports bempp_cl.  Complexity is O(M^2); meshes are small.
"""

import itertools

import numpy as np

# local edge i of a triangle joins these local vertices (bempp convention, documented in grid.py)
EDGE_LOCAL = ((0, 1), (2, 0), (1, 2))


def tri(e, j):
    return tuple(int(x) for x in e[:, j])


def undirected_edges(e):
    """dict: frozenset{a,b} -> list of (element, local edge index)."""
    out = {}
    for j in range(e.shape[1]):
        t = tri(e, j)
        for li, (a, b) in enumerate(EDGE_LOCAL):
            out.setdefault(frozenset((t[a], t[b])), []).append((j, li))
    return out


def vertex_star(e, nv):
    star = [[] for _ in range(nv)]
    for j in range(e.shape[1]):
        for li in range(3):
            star[int(e[li, j])].append(j)
    return star


def shared(e, i, j):
    """list of (local index in i, local index in j) of shared vertices."""
    ti, tj = tri(e, i), tri(e, j)
    return [(a, b) for a in range(3) for b in range(3) if ti[a] == tj[b]]


def adjacency(e):
    """Reference edge/vertex adjacency: dicts keyed by ordered pair (i, j), i != j.

    edge_adj[(i,j)] = frozenset of the two (li, lj) pairs; vertex_adj[(i,j)] = (li, lj).
    Pairs sharing 3 vertices (duplicate elements) are reported separately.
    """
    M = e.shape[1]
    edge_adj, vertex_adj, dup = {}, {}, []
    for i in range(M):
        for j in range(M):
            if i == j:
                continue
            s = shared(e, i, j)
            if len(s) == 1:
                vertex_adj[(i, j)] = s[0]
            elif len(s) == 2:
                edge_adj[(i, j)] = frozenset(s)
            elif len(s) == 3:
                dup.append((i, j))
    return edge_adj, vertex_adj, dup


def edge_class(pairs):
    """Class of an edge-adjacent pair: (test local edge index, trial local edge index, relative direction)."""
    (a0, b0), (a1, b1) = sorted(pairs)
    te = [k for k, (x, y) in enumerate(EDGE_LOCAL) if {x, y} == {a0, a1}][0]
    tr = [k for k, (x, y) in enumerate(EDGE_LOCAL) if {x, y} == {b0, b1}][0]
    return te, tr


def geometry(v, e):
    M = e.shape[1]
    out = {
        "normals": np.zeros((M, 3)),
        "volumes": np.zeros(M),
        "centroids": np.zeros((M, 3)),
        "jacobians": np.zeros((M, 3, 2)),
        "integration_elements": np.zeros(M),
        "diameters": np.zeros(M),
        "jit": np.zeros((M, 3, 2)),
    }
    for j in range(M):
        p0, p1, p2 = (v[:, int(e[k, j])] for k in range(3))
        J = np.column_stack([p1 - p0, p2 - p0])
        n = np.cross(p1 - p0, p2 - p0)
        nn = np.linalg.norm(n)
        out["normals"][j] = n / nn
        out["volumes"][j] = nn / 2
        out["centroids"][j] = (p0 + p1 + p2) / 3
        out["jacobians"][j] = J
        out["integration_elements"][j] = nn
        a, b, c = np.linalg.norm(p1 - p0), np.linalg.norm(p2 - p0), np.linalg.norm(p2 - p1)
        out["diameters"][j] = a * b * c / nn  # circumcircle diameter abc/(2 area)
        # J^{-T} in the sense J (J^T J)^{-1}: the 3x2 matrix G with G^T J = I and columns in the tangent plane
        out["jit"][j] = J @ np.linalg.inv(J.T @ J)
    return out


def boundary(e, nv):
    ue = undirected_edges(e)
    bedges = {k for k, lst in ue.items() if len(lst) == 1}
    bverts = set()
    for k in bedges:
        bverts |= set(k)
    return bedges, bverts


def area(v, e):
    return float(np.sum(geometry(v, e)["volumes"]))


def components(e):
    """Connected components of elements through shared vertices."""
    M = e.shape[1]
    parent = list(range(M))

    def find(x):
        while parent[x] != x:
            parent[x] = parent[parent[x]]
            x = parent[x]
        return x

    byv = {}
    for j in range(M):
        for k in range(3):
            byv.setdefault(int(e[k, j]), []).append(j)
    for lst in byv.values():
        for x in lst[1:]:
            parent[find(x)] = find(lst[0])
    return len({find(x) for x in range(M)})


def is_closed_manifold(e):
    return all(len(l) == 2 for l in undirected_edges(e).values())


def is_consistently_oriented(e):
    """Every manifold edge is traversed in opposite directions by its two triangles."""
    for k, lst in undirected_edges(e).items():
        if len(lst) != 2:
            continue
        dirs = []
        for j, li in lst:
            t = tri(e, j)
            a, b = EDGE_LOCAL[li]
            # orientation of the edge as traversed by the triangle boundary v0->v1->v2->v0
            seq = [(t[0], t[1]), (t[1], t[2]), (t[2], t[0])]
            x, y = t[a], t[b]
            dirs.append((x, y) if (x, y) in seq else (y, x))
        if dirs[0] == dirs[1]:
            return False
    return True


def signed_volume(v, e):
    s = 0.0
    for j in range(e.shape[1]):
        p0, p1, p2 = (v[:, int(e[k, j])] for k in range(3))
        s += np.dot(p0, np.cross(p1, p2)) / 6
    return s


def point_triangle_distance(x, p0, p1, p2):
    """Exact distance from point x to triangle (p0,p1,p2) (Ericson's closest point)."""
    ab, ac, ap = p1 - p0, p2 - p0, x - p0
    d1, d2 = ab @ ap, ac @ ap
    if d1 <= 0 and d2 <= 0:
        return np.linalg.norm(x - p0)
    bp = x - p1
    d3, d4 = ab @ bp, ac @ bp
    if d3 >= 0 and d4 <= d3:
        return np.linalg.norm(x - p1)
    vc = d1 * d4 - d3 * d2
    if vc <= 0 and d1 >= 0 and d3 <= 0:
        return np.linalg.norm(x - (p0 + ab * d1 / (d1 - d3)))
    cp = x - p2
    d5, d6 = ab @ cp, ac @ cp
    if d6 >= 0 and d5 <= d6:
        return np.linalg.norm(x - p2)
    vb = d5 * d2 - d1 * d6
    if vb <= 0 and d2 >= 0 and d6 <= 0:
        return np.linalg.norm(x - (p0 + ac * d2 / (d2 - d6)))
    va = d3 * d6 - d5 * d4
    if va <= 0 and (d4 - d3) >= 0 and (d5 - d6) >= 0:
        w = (d4 - d3) / ((d4 - d3) + (d5 - d6))
        return np.linalg.norm(x - (p1 + w * (p2 - p1)))
    den = 1.0 / (va + vb + vc)
    return np.linalg.norm(x - (p0 + ab * vb * den + ac * vc * den))


def distance_to_surface(x, v, e):
    return min(point_triangle_distance(x, *(v[:, int(e[k, j])] for k in range(3))) for j in range(e.shape[1]))


def winding_number(x, v, e):
    """Sum of signed solid angles / 4 pi (van Oosterom-Strackee)."""
    tot = 0.0
    for j in range(e.shape[1]):
        a, b, c = (v[:, int(e[k, j])] - x for k in range(3))
        la, lb, lc = np.linalg.norm(a), np.linalg.norm(b), np.linalg.norm(c)
        num = a @ np.cross(b, c)
        den = la * lb * lc + (a @ b) * lc + (a @ c) * lb + (b @ c) * la
        tot += 2 * np.arctan2(num, den)
    return tot / (4 * np.pi)


def min_angle_deg(v, e):
    m = 180.0
    for j in range(e.shape[1]):
        p = [v[:, int(e[k, j])] for k in range(3)]
        for k in range(3):
            a, b = p[(k + 1) % 3] - p[k], p[(k + 2) % 3] - p[k]
            m = min(m, np.degrees(np.arccos(a @ b / np.linalg.norm(a) / np.linalg.norm(b))))
    return m


def all_subsets(n, sizes=None):
    for r in range(1, n + 1):
        if sizes is not None and r not in sizes:
            continue
        for c in itertools.combinations(range(n), r):
            yield c
