"""Reference model of the function spaces (pure NumPy, imports nothing from bempp_cl).

Implements the documented meaning of the space options (DESIGN.md Appendix B.1):
which mesh entities carry a DOF, and the local basis functions from geometry.
"""

import numpy as np

from . import topo_ref as R

# local reference points used to compare functions: 3 vertices, 3 edge midpoints (edge i = EDGE_LOCAL[i]), centroid
LOCAL_PTS = np.array([[0.0, 0.0], [1.0, 0.0], [0.0, 1.0], [0.5, 0.0], [0.0, 0.5], [0.5, 0.5], [1 / 3, 1 / 3]]).T
# barycentric coordinates (lambda0, lambda1, lambda2) of LOCAL_PTS
LAMBDA = np.vstack([1 - LOCAL_PTS[0] - LOCAL_PTS[1], LOCAL_PTS[0], LOCAL_PTS[1]])
# which LOCAL_PTS lie on local edge i: the two end points and the midpoint
EDGE_PTS = {0: (0, 1, 3), 1: (2, 0, 4), 2: (1, 2, 5)}
OPPOSITE = {0: 2, 1: 1, 2: 0}  # local vertex opposite to local edge i


def selection(mesh, sel):
    """Boolean mask of selected elements. sel = ('all',) | ('segments', [...]) | ('elements', [...])."""
    v, e, d = mesh
    M = e.shape[1]
    if sel[0] == "all":
        return np.ones(M, dtype=bool)
    if sel[0] == "segments":
        return np.isin(d, list(sel[1]))
    m = np.zeros(M, dtype=bool)
    m[list(sel[1])] = True
    return m


def p1_expected(mesh, S, inc, trunc):
    """(sorted list of dof vertices, support mask) of the continuous P1 space."""
    v, e, d = mesh
    N, M = v.shape[1], e.shape[1]
    star = R.vertex_star(e, N)
    _, bverts = R.boundary(e, N)
    dofs = []
    support = np.zeros(M, dtype=bool)
    for p in range(N):
        inS = [t for t in star[p] if S[t]]
        if not inS:
            continue
        interior = len(inS) == len(star[p]) and p not in bverts
        if interior or inc:
            dofs.append(p)
            sup = star[p] if (inc and not trunc) else inS
            support[sup] = True
    return dofs, support


def rwg_expected(mesh, S, inc, trunc):
    """(set of dof edges as frozensets, support mask) of the RWG/SNC space (manifold edges only)."""
    v, e, d = mesh
    M = e.shape[1]
    ue = R.undirected_edges(e)
    dofs = set()
    support = np.zeros(M, dtype=bool)
    for key, lst in ue.items():
        nb = [t for t, _ in lst]
        inS = [t for t in nb if S[t]]
        if len(inS) == 2:
            dofs.add(key)
            support[inS] = True
        elif len(inS) == 1 and inc:
            dofs.add(key)
            support[nb if not trunc else inS] = True
    return dofs, support


def rwg_local(v, e, t, li, lam):
    """Value of the outward RWG function of local edge li on element t at barycentric points lam (3,P): (3,P)."""
    p = [v[:, int(e[k, t])] for k in range(3)]
    X = p[0][:, None] * lam[0] + p[1][:, None] * lam[1] + p[2][:, None] * lam[2]
    a, b = R.EDGE_LOCAL[li]
    L = np.linalg.norm(p[a] - p[b])
    A2 = np.linalg.norm(np.cross(p[1] - p[0], p[2] - p[0]))
    return L / A2 * (X - p[OPPOSITE[li]][:, None])


def conormal(v, e, t, li):
    """Outward unit conormal of element t at its local edge li (in the element plane)."""
    p = [v[:, int(e[k, t])] for k in range(3)]
    a, b = R.EDGE_LOCAL[li]
    tau = p[b] - p[a]
    tau = tau / np.linalg.norm(tau)
    n = np.cross(p[1] - p[0], p[2] - p[0])
    n = n / np.linalg.norm(n)
    nu = np.cross(tau, n)
    # make it point away from the opposite vertex
    if np.dot(nu, p[OPPOSITE[li]] - p[a]) > 0:
        nu = -nu
    return nu, tau, n


def local_edge_of(e, t, key):
    tri = R.tri(e, t)
    for li, (a, b) in enumerate(R.EDGE_LOCAL):
        if frozenset((tri[a], tri[b])) == key:
            return li
    return None


def local_vertex_of(e, t, p):
    tri = R.tri(e, t)
    return tri.index(p) if p in tri else None


# ---------------------------------------------------------------------------
# exact Gram matrices on one element (for C13 / C10)
# ---------------------------------------------------------------------------
def p1_mass_local(area):
    return area / 12.0 * (np.ones((3, 3)) + np.eye(3))


def tri_rule_deg2():
    """Edge-midpoint rule: exact for degree 2 on a triangle; weights sum to 1 (times area)."""
    lam = np.array([[0.5, 0.5, 0.0], [0.0, 0.5, 0.5], [0.5, 0.0, 0.5]]).T
    return lam, np.ones(3) / 3


def tri_rule_deg4():
    """6-point rule exact for degree 4 (Dunavant); barycentric coords (3,6), weights sum to 1."""
    a, b = 0.445948490915965, 0.091576213509771
    wa, wb = 0.223381589678011, 0.109951743655322
    pts = []
    for x in (a, b):
        pts += [[1 - 2 * x, x, x], [x, 1 - 2 * x, x], [x, x, 1 - 2 * x]]
    return np.array(pts).T, np.array([wa] * 3 + [wb] * 3)
