"""Mesh catalogue and labelling group (pure NumPy, imports nothing from bempp_cl).

A mesh is a triple (vertices (3,N) float64, elements (3,M) int64, domains (M,) int64).
All coordinates are generic (no symmetry) so that no identity holds by accident.
`get(name, seed)` applies a seed dependent perturbation of at most 1% of the
shortest edge (the set of meshes is the same for every seed).
"""

import hashlib
import itertools

import numpy as np

AFFINE = np.array([[1.0, 0.08, 0.03], [0.02, 1.1, 0.05], [0.04, 0.01, 0.93]])


def _rand(seed, tag, n):
    """Deterministic numbers in [-1,1] from (seed, tag)."""
    out = []
    i = 0
    while len(out) < n:
        h = hashlib.sha256(("%d/%s/%d" % (seed, tag, i)).encode()).digest()
        for j in range(0, 32, 4):
            out.append(int.from_bytes(h[j : j + 4], "little") / 2**31 - 1.0)
        i += 1
    return np.array(out[:n])


def _mk(verts, elems, doms=None):
    v = np.array(verts, dtype=np.float64).T.copy()
    e = np.array(elems, dtype=np.int64).T.copy()
    d = np.zeros(e.shape[1], dtype=np.int64) if doms is None else np.array(doms, dtype=np.int64)
    return v, e, d


def box(cells, affine=True, domain_by="direction"):
    """Boundary of a union of unit cells; each face split into two triangles, outward oriented."""
    cells = set(map(tuple, cells))
    vid = {}
    verts = []
    elems = []
    doms = []

    def V(p):
        if p not in vid:
            vid[p] = len(verts)
            verts.append(p)
        return vid[p]

    dirs = [(1, 0, 0), (-1, 0, 0), (0, 1, 0), (0, -1, 0), (0, 0, 1), (0, 0, -1)]
    for c in sorted(cells):
        for di, d in enumerate(dirs):
            nb = (c[0] + d[0], c[1] + d[1], c[2] + d[2])
            if nb in cells:
                continue
            ax = [abs(x) for x in d].index(1)
            u = (ax + 1) % 3
            w = (ax + 2) % 3
            base = list(c)
            if d[ax] > 0:
                base[ax] += 1

            def P(a, b):
                p = list(base)
                p[u] += a
                p[w] += b
                return tuple(p)

            quad = [P(0, 0), P(1, 0), P(1, 1), P(0, 1)]  # counter-clockwise seen from +ax
            if d[ax] < 0:
                quad = quad[::-1]
            q = [V(p) for p in quad]
            # alternate the diagonal so that vertex valences vary
            if (sum(c) + di) % 2 == 0:
                tris = [(q[0], q[1], q[2]), (q[0], q[2], q[3])]
            else:
                tris = [(q[0], q[1], q[3]), (q[1], q[2], q[3])]
            for t in tris:
                elems.append(t)
                doms.append(di + 1 if domain_by == "direction" else 0)
    v, e, dd = _mk(verts, elems, doms)
    if affine:
        v = AFFINE @ v
    return v, e, dd


def _cells(nx, ny, nz, minus=()):
    return [c for c in itertools.product(range(nx), range(ny), range(nz)) if c not in set(minus)]


def refine_ref(v, e, d):
    """Reference uniform refinement (4 children, same orientation)."""
    v = [tuple(x) for x in v.T]
    mid = {}
    ne = []
    nd = []

    def M(a, b):
        k = (min(a, b), max(a, b))
        if k not in mid:
            mid[k] = len(v)
            v.append(tuple((np.array(v[a]) + np.array(v[b])) / 2))
        return mid[k]

    for t, dom in zip(e.T, d):
        a, b, c = map(int, t)
        ab, bc, ca = M(a, b), M(b, c), M(c, a)
        for tri in [(a, ab, ca), (ab, b, bc), (ca, bc, c), (ab, bc, ca)]:
            ne.append(tri)
            nd.append(dom)
    return _mk(v, ne, nd)


def _catalogue():
    C = {}
    C["tri1"] = _mk([[0.1, 0.0, 0.05], [1.1, 0.13, -0.02], [0.23, 0.97, 0.11]], [[0, 1, 2]])
    C["edge2"] = _mk(
        [[0.0, 0.0, 0.0], [1.0, 0.1, 0.05], [0.4, 0.9, 0.1], [0.7, -0.6, 0.55]], [[0, 1, 2], [1, 0, 3]], [0, 1]
    )
    C["bow2"] = _mk(
        [[0.0, 0.0, 0.0], [1.0, 0.1, 0.0], [0.3, 0.9, 0.1], [-0.9, -0.2, 0.3], [-0.4, -1.0, -0.2]],
        [[0, 1, 2], [0, 3, 4]],
        [0, 1],
    )
    # fans around an interior vertex (open)
    def fan(n, lift):
        vs = [[0.03, -0.02, lift]]
        for i in range(n):
            a = 2 * np.pi * i / n + 0.1 * np.sin(1.7 * i + 0.3)
            r = 1.0 + 0.15 * np.cos(2.3 * i + 1.0)
            vs.append([r * np.cos(a), r * np.sin(a), 0.07 * np.sin(3.1 * i)])
        es = [[0, 1 + i, 1 + (i + 1) % n] for i in range(n)]
        return _mk(vs, es, [i % 2 for i in range(n)])

    C["fan4"] = fan(4, 0.25)
    # one-element-wide, non-uniform open strip: interior edges join two boundary vertices shared by different numbers of triangles
    C["strip4"] = _mk([[0, 0, 0], [1.1, 0.05, 0.1], [2.4, -0.1, 0.0], [0.2, 0.9, 0.15], [1.6, 1.1, -0.05], [3.1, 0.8, 0.2]],
                      [[0, 1, 3], [1, 4, 3], [1, 2, 4], [2, 5, 4]], [0, 0, 1, 1])
    C["fan5"] = fan(5, 0.2)
    C["book3"] = _mk(
        [[0, 0, 0], [0.05, 0.02, 1.0], [1.0, 0.1, 0.4], [-0.6, 0.8, 0.5], [-0.5, -0.9, 0.6]],
        [[0, 1, 2], [0, 1, 3], [0, 1, 4]],
        [0, 1, 2],
    )

    def screen(n, warp, ndom):
        vs = []
        for j in range(n + 1):
            for i in range(n + 1):
                x = i + 0.11 * np.sin(1.3 * i + 2.1 * j)
                y = j * 1.07 + 0.09 * np.cos(0.7 * i - 1.9 * j)
                z = warp * np.sin(0.9 * i + 0.4) * np.cos(1.1 * j - 0.2)
                vs.append([x, y, z])
        es = []
        ds = []
        for j in range(n):
            for i in range(n):
                a = j * (n + 1) + i
                b = a + 1
                c = a + n + 2
                dd = a + n + 1
                if (i + j) % 2 == 0:
                    tris = [[a, b, c], [a, c, dd]]
                else:
                    tris = [[a, b, dd], [b, c, dd]]
                for t in tris:
                    es.append(t)
                    ds.append((i * ndom) // n if ndom > 1 else 0)
        return _mk(vs, es, ds)

    C["screen2x2"] = screen(2, 0.12, 2)
    C["screen2x2p"] = screen(2, 0.0, 2)
    C["screen3x3"] = screen(3, 0.12, 3)
    C["tet"] = _mk(
        [[0.0, 0.02, -0.01], [1.05, 0.03, 0.04], [0.31, 0.98, 0.02], [0.37, 0.29, 0.91]],
        [[0, 2, 1], [0, 1, 3], [0, 3, 2], [1, 2, 3]],
        [0, 0, 1, 1],
    )
    C["octa"] = _mk(
        [[1.02, 0.03, 0.01], [-0.97, -0.02, 0.04], [0.02, 1.08, -0.03], [0.01, -0.95, 0.02], [0.04, 0.02, 0.99],
         [-0.03, 0.01, -1.04]],
        [[0, 2, 4], [2, 1, 4], [1, 3, 4], [3, 0, 4], [2, 0, 5], [1, 2, 5], [3, 1, 5], [0, 3, 5]],
        [1, 1, 1, 1, 2, 2, 2, 2],
    )
    # triangular prism: 2 caps + 3 quads split
    C["prism8"] = _mk(
        [[0, 0, 0], [1.1, 0.05, 0.0], [0.45, 0.95, 0.03], [0.03, 0.02, 1.0], [1.08, 0.0, 1.05], [0.5, 1.0, 0.97]],
        [[0, 2, 1], [3, 4, 5], [0, 1, 4], [0, 4, 3], [1, 2, 5], [1, 5, 4], [2, 0, 3], [2, 3, 5]],
        [0, 1, 2, 2, 3, 3, 4, 4],
    )
    C["cube12"] = box(_cells(1, 1, 1))
    C["lshape28"] = box([(0, 0, 0), (1, 0, 0), (0, 1, 0)])
    C["ushape"] = box([(0, 0, 0), (1, 0, 0), (2, 0, 0), (0, 1, 0), (2, 1, 0)])
    C["frame64"] = box(_cells(3, 3, 1, minus=[(1, 1, 0)]))
    C["cube3"] = box(_cells(3, 3, 3))
    C["cavity"] = box(_cells(3, 3, 3, minus=[(1, 1, 1)]))
    C["twocubes"] = box([(0, 0, 0), (3, 1, 0)])
    # dented tetrahedron (sharp non-convex): tet with face (1,2,3) pushed in
    C["dent6"] = _mk(
        [[0.0, 0.02, -0.01], [1.05, 0.03, 0.04], [0.31, 0.98, 0.02], [0.37, 0.29, 0.91], [0.42, 0.35, 0.2]],
        [[0, 2, 1], [0, 1, 3], [0, 3, 2], [1, 2, 4], [2, 3, 4], [3, 1, 4]],
        [0, 0, 0, 1, 1, 1],
    )
    # 9-vertex torus (3x3 periodic grid), 18 triangles, 3 domains
    R, r = 1.0, 0.42
    vs = []
    for i in range(3):
        for j in range(3):
            a = 2 * np.pi * i / 3 + 0.1
            b = 2 * np.pi * j / 3 + 0.25
            vs.append([(R + r * np.cos(b)) * np.cos(a), (R + r * np.cos(b)) * np.sin(a) * 1.05, r * np.sin(b) * 0.97])
    es = []
    ds = []
    for i in range(3):
        for j in range(3):
            a = i * 3 + j
            b = ((i + 1) % 3) * 3 + j
            c = ((i + 1) % 3) * 3 + (j + 1) % 3
            dd = i * 3 + (j + 1) % 3
            es += [[a, b, c], [a, c, dd]]
            ds += [i, i]
    C["torus18"] = _mk(vs, es, ds)
    tv, te, td = C["tet"]
    C["twotet"] = (
        np.hstack([tv, AFFINE @ tv + np.array([[2.6], [0.4], [0.3]])]),
        np.hstack([te, te + 4]),
        np.concatenate([td, td + 2]),
    )
    # two tetrahedra glued along a face (multitrace style): the three junction edges have three neighbours each
    C["gluedtets"] = _mk(
        [[0.0, 0.02, -0.01], [1.05, 0.03, 0.04], [0.31, 0.98, 0.02], [0.37, 0.29, 0.91], [0.52, 0.41, -0.83]],
        [[0, 1, 3], [1, 2, 3], [2, 0, 3], [0, 2, 1], [0, 4, 1], [1, 4, 2], [2, 4, 0]],
        [3, 1, 1, 2, 3, 3, 1],
    )
    ov, oe, od = C["octa"]
    # nested: octa (outward) containing a small tet with reversed orientation (normals point into the tet)
    sv = 0.25 * (tv - tv.mean(axis=1, keepdims=True)) + np.array([[0.02], [0.03], [-0.01]])
    C["nested"] = (np.hstack([ov, sv]), np.hstack([oe, te[[0, 2, 1], :] + 6]), np.concatenate([od, [5, 5, 5, 5]]))
    return C


_CAT = None
BENIGN = ["tet", "octa", "prism8", "cube12", "lshape28", "ushape", "frame64", "cube3", "cavity", "twocubes", "twotet"]
CLOSED = BENIGN + ["dent6", "torus18", "nested"]


def names():
    global _CAT
    if _CAT is None:
        _CAT = _catalogue()
    return list(_CAT)


def get(name, seed=0):
    """Return a fresh copy (v, e, d) of a catalogue mesh.

    'name^' = uniformly refined, 'name^^' = twice.  'name~3' (after any ^) = the elements of domain 3 stored with reversed
    orientation (to be repaired with swapped_normals=[3]).
    """
    global _CAT
    if _CAT is None:
        _CAT = _catalogue()
    if "~" in name:
        base, dom = name.rsplit("~", 1)
        m = get(base, seed)
        return reverse_elements(m, [j for j in range(m[1].shape[1]) if int(m[2][j]) == int(dom)])
    nref = 0
    while name.endswith("^"):
        name = name[:-1]
        nref += 1
    v, e, d = _CAT[name]
    v, e, d = v.copy(), e.copy(), d.copy()
    if seed:
        lens = []
        for t in e.T:
            for a, b in ((0, 1), (1, 2), (2, 0)):
                lens.append(np.linalg.norm(v[:, t[a]] - v[:, t[b]]))
        amp = 0.01 * min(lens)
        v = v + amp * _rand(seed, name, v.size).reshape(v.shape)
    for _ in range(nref):
        v, e, d = refine_ref(v, e, d)
    return v, e, d


# ---------------------------------------------------------------------------
# labelling group
# ---------------------------------------------------------------------------
def perm_elements(mesh, perm):
    """New element j is old element perm[j]."""
    v, e, d = mesh
    perm = np.asarray(perm)
    return v.copy(), e[:, perm].copy(), d[perm].copy()


def perm_vertices(mesh, perm):
    """New vertex j is old vertex perm[j]."""
    v, e, d = mesh
    perm = np.asarray(perm)
    inv = np.empty_like(perm)
    inv[perm] = np.arange(len(perm))
    return v[:, perm].copy(), inv[e].copy(), d.copy()


def rotate_local(mesh, rots):
    """Cyclically rotate the local vertex order of element j by rots[j] (new local i = old local (i+r)%3)."""
    v, e, d = mesh
    e2 = e.copy()
    for j, r in enumerate(rots):
        r = int(r) % 3
        if r:
            e2[:, j] = np.roll(e[:, j], -r)
    return v.copy(), e2, d.copy()


def reverse_elements(mesh, which):
    """Physically reverse orientation of the listed elements (swap local vertices 1 and 2)."""
    v, e, d = mesh
    e2 = e.copy()
    for j in which:
        e2[[1, 2], j] = e[[2, 1], j]
    return v.copy(), e2, d.copy()


def transform(mesh, A=None, t=None, s=None):
    v, e, d = mesh
    w = v.copy()
    if s is not None:
        w = s * w
    if A is not None:
        w = np.asarray(A) @ w
    if t is not None:
        w = w + np.asarray(t, dtype=float).reshape(3, 1)
    return w, e.copy(), d.copy()


def rotation(axis, angle):
    axis = np.asarray(axis, dtype=float)
    axis = axis / np.linalg.norm(axis)
    K = np.array([[0, -axis[2], axis[1]], [axis[2], 0, -axis[0]], [-axis[1], axis[0], 0]])
    return np.eye(3) + np.sin(angle) * K + (1 - np.cos(angle)) * (K @ K)


def submesh(mesh, elems, compress=True):
    """Sub-complex made of the listed elements (vertices renumbered in increasing order)."""
    v, e, d = mesh
    elems = list(elems)
    e2 = e[:, elems]
    if not compress:
        return v.copy(), e2.copy(), d[elems].copy()
    used = np.unique(e2)
    m = -np.ones(v.shape[1], dtype=np.int64)
    m[used] = np.arange(len(used))
    return v[:, used].copy(), m[e2].copy(), d[elems].copy()


def describe(mesh):
    v, e, d = mesh
    return {"vertices": v.T.tolist(), "elements": e.T.tolist(), "domains": d.tolist()}


def from_description(doc):
    return _mk(doc["vertices"], doc["elements"], doc["domains"])
