"""E3 - interleaving exploration of the prange bodies of the real kernels.

The kernels' unmodified Python source (`dispatcher.py_func`) is executed by CPython with

* `numba.prange` replaced by an iterator that (tracing mode) tags every access with its iteration, or
  (replay mode) hands each Python thread exactly one iteration of the real loop,
* the shared `result` array and every array allocated in the kernel prologue (through the module's `_np`)
  replaced by an ndarray subclass whose element loads/stores are recorded / are scheduling points.

Three uses:
  record(launch)           -> per-iteration access traces  [(op, array, cell, rmw-operator, operand)]
  races(traces)            -> every pair of iterations checked for conflicting accesses
  explore(traces, k)       -> explicit-state search over all interleavings of k iterations (loads and stores
                              are separate steps); terminal memory must equal the sequential result bit for bit
  replay(launch, schedule) -> the real py_func under a baton scheduler following a model schedule
"""

import itertools
import threading

import numpy as np

_STATE = threading.local()


class _Global:
    tracer = None  # active Tracer (one at a time; harnesses are run sequentially)
    roots = {}  # name -> root tracked array


def _cur():
    return getattr(_STATE, "iteration", None)


class Tracked(np.ndarray):
    """ndarray whose scalar loads / stores inside a prange iteration are reported to the active tracer.

    `_bex_flat` maps every element of this (view of a) tracked array to its flat index in the base array, so
    that cells are identified consistently through views.
    """

    _bex_name = None
    _bex_flat = None
    _bex_owner = None

    def __array_finalize__(self, obj):
        # only views of tracked memory stay tracked; results of arithmetic on tracked arrays are fresh private arrays
        if obj is not None and self.base is not None:
            self._bex_name = getattr(obj, "_bex_name", None)
            self._bex_owner = getattr(obj, "_bex_owner", None)
            fl = getattr(obj, "_bex_flat", None)
            self._bex_flat = fl if (fl is not None and fl.shape == self.shape) else None

    def _cells(self, idx):
        if self._bex_flat is None:
            self._bex_flat = np.arange(self.size).reshape(self.shape)
        return np.atleast_1d(self._bex_flat[idx]).ravel().tolist()

    def __getitem__(self, idx):
        tr = _Global.tracer
        if tr is None or self._bex_name is None:
            return np.ndarray.__getitem__(self, idx)
        it = _cur()
        if it is None:
            out = np.ndarray.__getitem__(self, idx)
            if isinstance(out, Tracked) and out.ndim > 0:
                if self._bex_flat is None:
                    self._bex_flat = np.arange(self.size).reshape(self.shape)
                out._bex_flat = self._bex_flat[idx]
            return out
        cells = self._cells(idx)
        for c in cells:
            tr.first_touch(self._bex_name, c, self)
        if len(cells) != 1:
            for c in cells:
                tr.access(it, "R", self._bex_name, c, None, None)
            return np.array(np.ndarray.__getitem__(self, idx))
        tr.access(it, "R", self._bex_name, cells[0], None, None)  # scheduling point BEFORE the load
        out = np.ndarray.__getitem__(self, idx)
        if isinstance(out, np.ndarray):
            out = out.ravel()[0]
        return _make_value(out, tr, it, self._bex_name, cells[0])

    def __setitem__(self, idx, value):
        tr = _Global.tracer
        if tr is None or self._bex_name is None:
            np.ndarray.__setitem__(self, idx, _plain(value))
            return
        it = _cur()
        if it is None:
            # prologue store: in replay mode only the owner thread's prologue writes shared allocations
            if self._bex_owner is not None and self._bex_owner != threading.get_ident():
                return
            np.ndarray.__setitem__(self, idx, _plain(value))
            return
        cells = self._cells(idx)
        for c in cells:
            tr.first_touch(self._bex_name, c, self)
        pend = getattr(_STATE, "pending", None)
        _STATE.pending = None
        if len(cells) == 1 and pend is not None and pend[0] == (self._bex_name, cells[0]):
            tr.access(it, "W", self._bex_name, cells[0], pend[1], pend[2])
        else:
            shape = np.ndarray.__getitem__(self, idx).shape if len(cells) > 1 else ()
            vals = np.broadcast_to(np.asarray(_plain(value)), shape).ravel().tolist() if len(cells) > 1 else [_plain(value)]
            if len(cells) > 1:
                # a slice store is a sequence of element stores, each its own scheduling point
                root = np.asarray(_Global.roots[self._bex_name])
                for c, val in zip(cells, vals):
                    tr.access(it, "W", self._bex_name, c, "set", val)
                    root[np.unravel_index(c, root.shape)] = val
                return
            tr.access(it, "W", self._bex_name, cells[0], "set", vals[0])
        np.ndarray.__setitem__(self, idx, _plain(value))


def _inplace(name):
    base = getattr(np.ndarray, name)

    def op(self, other):
        # prologue in-place update of a shared allocation by a thread that does not own it: drop (the owner's
        # prologue has produced / will produce exactly these values)
        if _Global.tracer is not None and _cur() is None and self._bex_owner is not None and self._bex_owner != threading.get_ident():
            return self
        return base(self, other)

    return op


for _n in ("__iadd__", "__isub__", "__imul__", "__itruediv__"):
    setattr(Tracked, _n, _inplace(_n))


def _plain(x):
    if isinstance(x, (_TF, _TC)):
        return x.real_value()
    return x


class _TF(float):
    """float read from a tracked cell: remembers which cell so that `cell op= x` is recorded as load;op;store."""

    def real_value(self):
        return float(self)

    def _rec(self, op, other):
        _STATE.pending = (self._cell, op, other)

    def __add__(self, other):
        self._rec("add", other)
        return float(self) + other

    __radd__ = __add__

    def __mul__(self, other):
        self._rec("mul", other)
        return float(self) * other

    __rmul__ = __mul__

    def __sub__(self, other):
        self._rec("sub", other)
        return float(self) - other


class _TC(complex):
    def real_value(self):
        return complex(self)

    def _rec(self, op, other):
        _STATE.pending = (self._cell, op, other)

    def __add__(self, other):
        self._rec("add", other)
        return complex(self) + other

    __radd__ = __add__

    def __mul__(self, other):
        self._rec("mul", other)
        return complex(self) * other

    __rmul__ = __mul__

    def __sub__(self, other):
        self._rec("sub", other)
        return complex(self) - other


def _make_value(out, tr, it, name, cell):
    if isinstance(out, (complex, np.complexfloating)):
        v = _TC(out)
    elif isinstance(out, (float, np.floating)):
        v = _TF(out)
    else:
        return out
    v._cell = (name, cell)
    return v


def track(arr, name):
    t = np.asarray(arr).view(Tracked)
    t._bex_name = name
    _Global.roots[name] = t
    return t


class NpShim:
    """Stands in for the kernel module's `_np`: prologue allocations become tracked arrays."""

    def __init__(self, real, tracer):
        self._real = real
        self._tracer = tracer
        self._count = 0

    def __getattr__(self, name):
        return getattr(self._real, name)

    def _alloc(self, fn, *a, **k):
        arr = fn(*a, **k)
        if _cur() is None and threading.current_thread() in self._tracer.prologue_threads:
            self._count += 1
            nm = "alloc%d" % self._tracer.next_alloc_id()
            t = track(arr, nm)
            self._tracer.allocs[nm] = t
            return t
        return arr

    def zeros(self, *a, **k):
        return self._alloc(self._real.zeros, *a, **k)

    def empty(self, *a, **k):
        return self._alloc(self._real.empty, *a, **k)

    def ones(self, *a, **k):
        return self._alloc(self._real.ones, *a, **k)

    def zeros_like(self, *a, **k):
        return self._alloc(self._real.zeros_like, *a, **k)

    def empty_like(self, *a, **k):
        return self._alloc(self._real.empty_like, *a, **k)


class Tracer:
    """Sequential recording of the accesses of every iteration."""

    def __init__(self):
        self.traces = {}  # iteration -> list of events
        self.allocs = {}
        self.prologue_threads = {threading.current_thread()}
        self._alloc_id = 0
        self.launch_sizes = []
        self.init = {}

    def next_alloc_id(self):
        self._alloc_id += 1
        return self._alloc_id

    def first_touch(self, name, cell, arr):
        """Remember the value a cell held before any iteration touched it."""
        k = (name, int(cell))
        if k not in self.init:
            root = _Global.roots[name]
            self.init[k] = np.ndarray.__getitem__(np.asarray(root).reshape(-1), int(cell)).item()

    def access(self, it, op, name, cell, rmw, operand):
        self.traces.setdefault(it, []).append((op, name, int(cell), rmw, operand))


def _prange_tracing(tracer):
    def prange(*args):
        rng = range(*args)
        tracer.launch_sizes.append(len(rng))
        launch = len(tracer.launch_sizes) - 1
        for i in rng:
            _STATE.iteration = (launch, i)
            tracer.traces.setdefault((launch, i), [])
            try:
                yield i
            finally:
                _STATE.iteration = None

    return prange


class Launch:
    """One recorded call of a parallel kernel: dispatcher + argument tuple (+ index of the result argument)."""

    def __init__(self, name, dispatcher, args, kwargs=None):
        self.name = name
        self.dispatcher = dispatcher
        self.args = list(args)
        self.kwargs = dict(kwargs or {})

    def pyfunc(self):
        return getattr(self.dispatcher, "py_func", self.dispatcher)


def _prepare_args(launch, shared_names):
    """Copy array arguments that the kernel writes (the last ndarray argument named 'result' by convention)."""
    import inspect

    fn = launch.pyfunc()
    names = list(inspect.signature(fn).parameters)
    args = list(launch.args)
    out = {}
    for i, (nm, a) in enumerate(zip(names, args)):
        if nm in shared_names and isinstance(a, np.ndarray):
            t = track(a.copy(), nm)
            args[i] = t
            out[nm] = t
        elif hasattr(a, "py_func") and nm in ("kernel_evaluator",) and launch.name in ("default_sparse_kernel",):
            args[i] = a.py_func  # the sparse kernel scatters inside its evaluator
    return args, out


class _NumbaShim:
    def __init__(self, real, prange):
        self._real = real
        self.prange = prange

    def __getattr__(self, name):
        return getattr(self._real, name)


def _instrument(pyfunc, np_shim, prange):
    """Copy of the kernel's Python function whose globals `_np` / `_numba` are the shims.

    The function object of the library is left untouched (jitted callees keep compiling against the real
    module globals)."""
    import types

    g = dict(pyfunc.__globals__)
    g["_np"] = np_shim
    g["_numba"] = _NumbaShim(pyfunc.__globals__["_numba"], prange)
    return types.FunctionType(pyfunc.__code__, g, pyfunc.__name__, pyfunc.__defaults__, pyfunc.__closure__)


def record(launch, module, shared_names=("result",)):
    """Run the kernel's Python source sequentially and record the access trace of every iteration."""
    tracer = Tracer()
    args, shared = _prepare_args(launch, shared_names)
    fn = _instrument(launch.pyfunc(), NpShim(np, tracer), _prange_tracing(tracer))
    _Global.tracer = tracer
    try:
        with np.errstate(all="ignore"):
            ret = fn(*args, **launch.kwargs)
    finally:
        _Global.tracer = None
    final = {nm: np.array(a) for nm, a in shared.items()}
    for nm, a in tracer.allocs.items():
        final[nm] = np.array(a)
    return tracer, final, ret


def races(tracer):
    """All pairs of iterations of the same launch with conflicting accesses (same cell, at least one store)."""
    out = []
    by_launch = {}
    for (launch, i), ev in tracer.traces.items():
        by_launch.setdefault(launch, []).append((i, ev))
    pairs = 0
    for launch, its in by_launch.items():
        acc = []
        for i, ev in its:
            rd, wr = set(), set()
            for op, name, cell, _, _ in ev:
                (wr if op == "W" else rd).add((name, cell))
            acc.append((i, rd, wr))
        for (i, ri, wi), (j, rj, wj) in itertools.combinations(acc, 2):
            pairs += 1
            conflict = (wi & wj) | (wi & rj) | (ri & wj)
            if conflict:
                out.append((launch, i, j, sorted(conflict)[0]))
    return out, pairs


# ---------------------------------------------------------------------------
# explicit-state exploration of the trace model
# ---------------------------------------------------------------------------
def _apply_op(rmw, reg, operand):
    if rmw == "add":
        return reg + operand
    if rmw == "mul":
        return reg * operand
    if rmw == "sub":
        return reg - operand
    if rmw == "set":
        return operand
    raise ValueError(rmw)


def _rmw_loads(trace):
    """Indices of load events whose value feeds the next store to the same cell (load;op;store)."""
    out = set()
    for i, (op, name, cell, rmw, operand) in enumerate(trace):
        if op != "R":
            continue
        for (op2, name2, cell2, rmw2, _) in trace[i + 1:]:
            if (name2, cell2) == (name, cell):
                if op2 == "W" and rmw2 in ("add", "mul", "sub"):
                    out.add(i)
                break
    return out


def explore(traces, init_mem, max_states=2_000_000):
    """All interleavings of the given event lists (one per thread) at load/store granularity.

    traces: list of event lists; init_mem: dict (array, cell) -> initial value.
    Returns (states, transitions, {terminal memory: one schedule reaching it}, complete?).
    State = (pc vector, pending read-modify-write registers, memory); explicit de-duplication.  Loads whose value
    is not written back do not change the state apart from the program counter.
    """
    n = len(traces)
    cells = sorted({(name, cell) for tr in traces for (op, name, cell, _, _) in tr})
    cidx = {c: k for k, c in enumerate(cells)}
    rmwl = [_rmw_loads(tr) for tr in traces]
    mem0 = tuple(init_mem.get(c, 0.0) for c in cells)
    start = (tuple([0] * n), tuple([()] * n), mem0)
    seen = {start}
    stack = [(start, ())]
    transitions = 0
    terminals = {}
    while stack:
        (pcs, regs, mem), sched = stack.pop()
        done = True
        for t in range(n):
            if pcs[t] >= len(traces[t]):
                continue
            done = False
            op, name, cell, rmw, operand = traces[t][pcs[t]]
            k = cidx[(name, cell)]
            nregs, nmem = regs, mem
            if op == "R":
                if pcs[t] in rmwl[t]:
                    r = tuple(x for x in regs[t] if x[0] != k) + ((k, mem[k]),)
                    nregs = regs[:t] + (r,) + regs[t + 1:]
            else:
                if rmw == "set":
                    val = operand
                else:
                    cur = dict(regs[t])
                    val = _apply_op(rmw, cur[k], operand)
                    r = tuple(x for x in regs[t] if x[0] != k)
                    nregs = regs[:t] + (r,) + regs[t + 1:]
                nmem = mem[:k] + (val,) + mem[k + 1:]
            npcs = pcs[:t] + (pcs[t] + 1,) + pcs[t + 1:]
            st = (npcs, nregs, nmem)
            transitions += 1
            if st not in seen:
                seen.add(st)
                if len(seen) > max_states:
                    return len(seen), transitions, terminals, False
                stack.append((st, sched + (t,)))
        if done:
            terminals.setdefault(mem, sched)
    return len(seen), transitions, terminals, True


def simulate(traces, schedule, init_mem):
    """Memory predicted by the trace model for one complete schedule (list of thread ids)."""
    cells = sorted({(name, cell) for tr in traces for (op, name, cell, _, _) in tr})
    mem = {c: init_mem.get(c, 0.0) for c in cells}
    pcs = [0] * len(traces)
    regs = [dict() for _ in traces]
    for t in schedule:
        op, name, cell, rmw, operand = traces[t][pcs[t]]
        if op == "R":
            regs[t][(name, cell)] = mem[(name, cell)]
        else:
            mem[(name, cell)] = operand if rmw == "set" else _apply_op(rmw, regs[t][(name, cell)], operand)
        pcs[t] += 1
    if any(pcs[t] != len(traces[t]) for t in range(len(traces))):
        raise ValueError("incomplete schedule")
    return mem


def sequential_memory(traces, init_mem):
    sched = [t for t, tr in enumerate(traces) for _ in tr]
    mem = simulate(traces, sched, init_mem)
    cells = sorted(mem)
    return tuple(mem[c] for c in cells), cells


def schedules_with_preemptions(lengths, bound, cap=None):
    """All complete schedules (sequences of thread ids) with at most `bound` preemptions.

    A preemption = switching away from a thread that still has events.  Deterministic order.
    """
    n = len(lengths)
    out = []

    def rec(pcs, cur, used, sched):
        if cap is not None and len(out) >= cap:
            return
        if all(pcs[t] >= lengths[t] for t in range(n)):
            out.append(tuple(sched))
            return
        order = ([cur] if cur is not None and pcs[cur] < lengths[cur] else []) + [t for t in range(n) if t != cur and pcs[t] < lengths[t]]
        for t in order:
            cost = 1 if (cur is not None and t != cur and pcs[cur] < lengths[cur]) else 0
            if used + cost > bound:
                continue
            pcs2 = list(pcs)
            pcs2[t] += 1
            sched.append(t)
            rec(pcs2, t, used + cost, sched)
            sched.pop()

    rec([0] * n, None, 0, [])
    return out


# ---------------------------------------------------------------------------
# replay on the real code under a baton scheduler
# ---------------------------------------------------------------------------
class _Baton:
    def __init__(self, n, schedule):
        self.sems = [threading.Semaphore(0) for _ in range(n)]
        self.main = threading.Semaphore(0)
        self.schedule = list(schedule)
        self.observed = []
        self.finished = [False] * n
        self.error = None


class ReplayTracer(Tracer):
    """Scheduling points at every tracked access; thread t executes iteration its[t]."""

    def __init__(self, baton, tid_of_thread):
        super().__init__()
        self.baton = baton
        self.tid_of_thread = tid_of_thread
        self.prologue_threads = set()

    def access(self, it, op, name, cell, rmw, operand):
        tid = self.tid_of_thread[threading.get_ident()]
        b = self.baton
        # announce the access, hand the baton back, wait to be scheduled
        b.main.release()
        b.sems[tid].acquire()
        b.observed.append((tid, op, name, int(cell)))
        self.traces.setdefault(it, []).append((op, name, int(cell), rmw, operand))


def replay(launch, module, iterations, schedule, shared_names=("result",), prologue_arrays=None):
    """Run the real py_func with one Python thread per iteration, following `schedule` (list of thread ids,
    one entry per tracked access).  Returns (final shared arrays, observed access sequence)."""
    n = len(iterations)
    baton = _Baton(n, schedule)
    tid_of_thread = {}
    tracer = ReplayTracer(baton, tid_of_thread)
    args, shared = _prepare_args(launch, shared_names)
    launch_no = iterations[0][0]

    def prange_for(tid):
        def prange(*a):
            cnt = getattr(_STATE, "launch_count", 0)
            _STATE.launch_count = cnt + 1
            if cnt != launch_no:
                return
            i = iterations[tid][1]
            _STATE.iteration = (launch_no, i)
            try:
                yield i
            finally:
                _STATE.iteration = None
        return prange

    def dispatch_prange(*a):
        return _STATE.my_prange(*a)

    results = [None] * n

    def body(tid):
        tid_of_thread[threading.get_ident()] = tid
        _STATE.my_prange = prange_for(tid)
        _STATE.launch_count = 0
        _STATE.iteration = None
        try:
            baton.sems[tid].acquire()  # wait for first scheduling
            with np.errstate(all="ignore"):
                results[tid] = fn(*args, **launch.kwargs)
        except BaseException as exc:  # noqa: BLE001
            baton.error = exc
        finally:
            baton.finished[tid] = True
            baton.main.release()

    # NOTE: prologue allocations must be shared between the threads like in the compiled code, where the
    # prologue runs once.  Each Python thread re-executes the prologue; allocations are matched by order.
    shared_allocs = {}

    class SharedShim(NpShim):
        def _alloc(self, fn, *a, **k):
            if _cur() is None:
                cnt = getattr(_STATE, "alloc_count", 0) + 1
                _STATE.alloc_count = cnt
                nm = "alloc%d" % cnt
                with lock:
                    if nm not in shared_allocs:
                        t = track(fn(*a, **k), nm)
                        t._bex_owner = threading.get_ident()
                        shared_allocs[nm] = t
                return shared_allocs[nm]
            return fn(*a, **k)

    lock = threading.Lock()
    fn = _instrument(launch.pyfunc(), SharedShim(np, tracer), dispatch_prange)
    _Global.tracer = tracer
    threads = [threading.Thread(target=body, args=(t,), daemon=True) for t in range(n)]
    try:
        for th in threads:
            th.start()
        # phase 1: run every thread up to its first access (prologues are independent and deterministic)
        for t in range(n):
            baton.sems[t].release()
            baton.main.acquire()
        # now every thread is either parked at its first access or finished
        for step, t in enumerate(schedule):
            if baton.finished[t]:
                raise RuntimeError("schedule step %d names finished thread %d" % (step, t))
            baton.sems[t].release()
            baton.main.acquire()
        if not all(baton.finished):
            raise RuntimeError("schedule exhausted but threads still have accesses (trace diverged)")
        if baton.error is not None:
            raise baton.error
    finally:
        _Global.tracer = None
        for t in range(n):
            baton.sems[t].release()
    final = {nm: np.array(a) for nm, a in shared.items()}
    for nm, a in shared_allocs.items():
        final[nm] = np.array(a)
    return final, baton.observed, results
