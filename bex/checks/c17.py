"""C17 - FMM-mode operators equal dense-mode ones given an exact far-field evaluator (E1 sweep).

The harness puts /verif/bex/stubs on sys.path: `exafmm` there is an exact direct summation.
"""

import os
import sys

import numpy as np

from bex import ops
from bex import spaces as SP
from bex.models import meshes

LEVEL = "exploration"
TOL = 1e-10

STUBS = os.path.join(os.path.dirname(os.path.dirname(os.path.abspath(__file__))), "stubs")


def install_stub():
    if STUBS not in sys.path:
        sys.path.insert(0, STUBS)
    import exafmm  # noqa: F401

    if not os.path.abspath(exafmm.__file__).startswith(STUBS):
        raise RuntimeError("a real exafmm is importable; the exact-summation stub must shadow it")


def set_global(regular, singular, near="evaluate"):
    import bempp_cl.api as bem

    bem.GLOBAL_PARAMETERS.quadrature.regular = regular
    bem.GLOBAL_PARAMETERS.quadrature.singular = singular
    bem.GLOBAL_PARAMETERS.fmm.near_field_representation = near
    bem.clear_fmm_cache()


def matrix_of(A, n):
    """Dense matrix of a discrete operator through matvecs with all unit vectors."""
    cols = []
    for j in range(n):
        ej = np.zeros(n)
        ej[j] = 1.0
        cols.append(np.asarray(A @ ej).reshape(-1))
    return np.array(cols).T


def dense_reference(family, name, dom, dual, k):
    """Dense-mode matrix; for dof-transformed (barycentric) spaces T_t' A T_d with A assembled on the plain element-wise space of the
    barycentric grid (the library refuses dense assembly on dof-transformed spaces) and T the space's own dof_transformation."""
    import bempp_cl.api as bem

    def loc(s):
        if not s.requires_dof_transformation:
            return s, None
        T = np.asarray((s.map_to_localised_space @ s.dof_transformation).todense())
        ident = s.shapeset.identifier
        if ident == "p0_discontinuous":
            plain = bem.function_space(s.grid, "DP", 0)
        elif ident == "p1_discontinuous":
            plain = bem.function_space(s.grid, "DP", 1)
        elif ident == "rwg0":
            plain = bem.function_space(s.grid, "RWG", 0).localised_space
        elif ident == "snc0":
            plain = bem.function_space(s.grid, "SNC", 0).localised_space
        else:
            raise RuntimeError("no plain counterpart for %s" % ident)
        if plain.requires_dof_transformation or plain.global_dof_count != T.shape[0]:
            raise RuntimeError("plain counterpart of %s has %d dofs, transformation has %d rows" % (ident, plain.global_dof_count, T.shape[0]))
        return plain, T

    if dom.is_barycentric or dual.is_barycentric:
        # documented rule: as soon as one space lives on the barycentric refinement, both are taken in their barycentric representation
        # (same functions, expressed on the refined grid), so that test and trial grids coincide and the singular part applies
        dom, dual = dom.barycentric_representation(), dual.barycentric_representation()
    d, Td = loc(dom)
    t, Tt = loc(dual)
    if family == "maxwell" and (Td is not None or Tt is not None):
        A = ops.dense(ops.maxwell_raw(name, d, d, t, k, assembler="dense"))
    else:
        A = ops.dense(ops.boundary(family, name, d, d, t, k=k, assembler="dense"))
    if Td is not None:
        A = A @ Td
    if Tt is not None:
        A = Tt.T @ A
    return A


SCALAR_FAMS = [("laplace", None), ("helmholtz", 1.3), ("helmholtz", 0.7 + 0.4j), ("modified_helmholtz", 0.9)]
MAXWELL_KS = [1.3, 0.7 + 0.4j]


def space_pairs(mesh, quick, fam=None):
    """(label, domain spec, dual spec) for scalar V/K/K' operators."""
    d = sorted(set(mesh[2].tolist()))
    out = [("DP0/DP0", {"kind": "DP0"}, {"kind": "DP0"}), ("P1/P1", {"kind": "P1", "inc": True}, {"kind": "P1", "inc": True}),
           ("DP1/DP0", {"kind": "DP1"}, {"kind": "DP0"})]
    if len(d) > 1:
        first, last = ("segments", (d[0],)), ("segments", (d[-1],))
        out += [("DP0seg-last/DP0seg-first", {"kind": "DP0", "sel": last}, {"kind": "DP0", "sel": first}),
                ("P1seg-last/P1", {"kind": "P1", "sel": last, "inc": True}, {"kind": "P1", "inc": True}),
                ("DP1seg-first/P1seg-last", {"kind": "DP1", "sel": first}, {"kind": "P1", "sel": last, "inc": True, "trunc": False})]
        # normals flipped on a proper subset of the domains (normal multipliers not constant), whole grid and segment
        out += [("P1sw/P1sw", {"kind": "P1", "inc": True, "swapped": (d[-1],)}, {"kind": "P1", "inc": True, "swapped": (d[0],)}),
                ("DP0seg-last-sw/P1sw", {"kind": "DP0", "sel": last, "swapped": (d[-1],)}, {"kind": "P1", "inc": True, "swapped": (d[-1],)})]
    if quick and fam == "laplace":
        # one dof-transformed (barycentric) pair in the quick tier: the near-field / singular correction applies dof_transformation
        out += [("DUAL0/DUAL0", {"kind": "DUAL0", "inc": True, "trunc": False}, {"kind": "DUAL0", "inc": True, "trunc": False}),
                ("DUAL1/DP0", {"kind": "DUAL1"}, {"kind": "DP0"})]
    if not quick:
        out += [("DUAL0/DUAL0", {"kind": "DUAL0", "inc": True, "trunc": False}, {"kind": "DUAL0", "inc": True, "trunc": False}),
                ("DUAL1/DP0", {"kind": "DUAL1"}, {"kind": "DP0"})]
    return out


def check_boundary(ctx, meshname, grid_t, grid_d, family, name, k, label, dspec, tspec, order, near):
    case = {"sub": "boundary", "mesh": meshname, "family": family, "operator": name, "k": k, "spaces": label,
            "domain": SP.spec_json(dict({"sel": ("all",)}, **dspec)), "dual": SP.spec_json(dict({"sel": ("all",)}, **tspec)),
            "order": list(order), "near": near}
    seg = "seg" if ("seg" in label) else "whole"
    sig = "fmm-boundary/%s/%s/%s/%s" % (family, name, label.split("/")[0].rstrip("-firstlast").split("seg")[0] + "|" + label.split("/")[1].split("seg")[0], seg)
    set_global(order[0], order[1], near)
    try:
        dom = SP.make_space(grid_d, dict({"sel": ("all",)}, **dspec))
        dual = SP.make_space(grid_t, dict({"sel": ("all",)}, **tspec))
        ref = dense_reference(family, name, dom, dual, k)
    except Exception as exc:  # noqa: BLE001
        raise RuntimeError("dense reference failed for %r: %r" % (case, exc))
    try:
        op = ops.boundary(family, name, dom, dom, dual, k=k, assembler="fmm")
        got = matrix_of(op.weak_form(), dom.global_dof_count)
        # complex vector through the same operator
        xc = np.cos(np.arange(dom.global_dof_count) + 0.3) + 1j * np.sin(1.7 * np.arange(dom.global_dof_count))
        yc = np.asarray(op.weak_form() @ xc).reshape(-1)
    except Exception as exc:  # noqa: BLE001
        ctx.violation(sig + "/exception:" + type(exc).__name__, case, "fmm mode raised %r" % (exc,))
        return
    ctx.case((meshname, family, name, repr(k), label, order, near), sub="fmm-boundary",
             sample=case if len(ctx.samples) < 3 and seg == "seg" else None)
    if seg == "seg":
        ctx.cover("segment_cases", None)
    ctx.check_close(sig, case, got, ref, TOL, "fmm-vs-dense(boundary)")
    ctx.check_close(sig + "/complex-vector", case, yc, ref @ xc, TOL, "fmm-vs-dense(boundary,complex)", scale=float(np.max(np.abs(ref))) * len(xc))


def check_potential(ctx, meshname, grid, family, name, k, sspec, order):
    import bempp_cl.api as bem

    case = {"sub": "potential", "mesh": meshname, "family": family, "operator": name, "k": k,
            "space": SP.spec_json(dict({"sel": ("all",)}, **sspec)), "order": list(order)}
    seg = "seg" if dict({"sel": ("all",)}, **sspec)["sel"][0] != "all" else "whole"
    sig = "fmm-potential/%s/%s/%s/%s" % (family, name, sspec["kind"], seg)
    set_global(order[0], order[1])
    space = SP.make_space(grid, dict({"sel": ("all",)}, **sspec))
    pts = np.array([[2.1, 0.3, 0.4], [0.5, 0.5, 3.0], [-1.0, -1.2, -0.7], [0.3, -2.0, 0.1], [1.5, 1.5, 1.5]]).T
    n = space.global_dof_count
    C = np.eye(n)
    try:
        dense = ops.potential(family, name, space, pts, k=k, assembler="dense")
        ref = np.array([np.asarray(dense.evaluate(bem.GridFunction(space, coefficients=C[:, j]))) for j in range(n)])
    except Exception as exc:  # noqa: BLE001
        ctx.declined += 1  # dense potential itself refuses this input (judged by C05/C08)
        return
    try:
        fmm = ops.potential(family, name, space, pts, k=k, assembler="fmm")
        got = np.array([np.asarray(fmm.evaluate(bem.GridFunction(space, coefficients=C[:, j]))) for j in range(n)])
        xc = np.cos(np.arange(n) + 0.3) + 1j * np.sin(1.7 * np.arange(n))
        gc = np.asarray(fmm.evaluate(bem.GridFunction(space, coefficients=xc)))
    except Exception as exc:  # noqa: BLE001
        ctx.violation(sig + "/exception:" + type(exc).__name__, case, "fmm potential raised %r" % (exc,))
        return
    ctx.case((meshname, "pot", family, name, repr(k), SP.spec_key(dict({"sel": ("all",)}, **sspec)), order), sub="fmm-potential")
    if seg == "seg":
        ctx.cover("segment_cases", None)
    ctx.check_close(sig, case, got, ref, TOL, "fmm-vs-dense(potential)")
    ctx.check_close(sig + "/complex-vector", case, gc, np.tensordot(xc, ref, axes=(0, 0)), TOL, "fmm-vs-dense(potential,complex)",
                    scale=float(np.max(np.abs(ref))) * n)


def check_cache_histories(ctx, quick):
    """E2 over assembly histories without clear_fmm_cache(): FMM interfaces are cached per (grids, mode, wavenumber, order, fmm settings).
    Operators between two grid objects A, B (a translated copy with the same element count, so that a wrongly shared interface gives
    numbers instead of a shape error) are assembled in every order; each must equal its dense counterpart whatever was assembled before."""
    import itertools

    import bempp_cl.api as bem

    mA = meshes.get("tet", ctx.seed)
    mB = meshes.transform(meshes.get("tet", ctx.seed), t=(2.9, 0.3, -0.4))
    mC = meshes.transform(meshes.get("octa", ctx.seed), t=(-3.2, 0.5, 0.2))
    depth = 2 if quick else 3
    fams = [("laplace", "single_layer", None)] if quick else [("laplace", "single_layer", None), ("helmholtz", "double_layer", 0.9 + 0.2j)]
    for family, opn, k in fams:
        grids = {"A": SP.make_grid(mA), "B": SP.make_grid(mB), "C": SP.make_grid(mC)}
        spaces = {g: SP.make_space(grids[g], {"kind": "DP0"}) for g in grids}
        set_global(3, 4)
        dense = {}
        for d, t in itertools.product("ABC", repeat=2):
            dense[(d, t)] = ops.dense(ops.boundary(family, opn, spaces[d], spaces[d], spaces[t], k=k, assembler="dense"))
        events = [("A", "A"), ("A", "B"), ("B", "A"), ("B", "B"), ("A", "C"), ("C", "A")]
        for hist in itertools.chain.from_iterable(itertools.product(events, repeat=n) for n in range(1, depth + 1)):
            if len(hist) > 1 and len(set(hist)) == 1:
                continue
            bem.clear_fmm_cache()
            case = {"sub": "fmm-cache-history", "family": family, "operator": opn, "k": k, "history": ["%s<-%s" % (t, d) for d, t in hist]}
            got = None
            try:
                for d, t in hist:
                    op = ops.boundary(family, opn, spaces[d], spaces[d], spaces[t], k=k, assembler="fmm")
                    got = matrix_of(op.weak_form(), spaces[d].global_dof_count)
            except Exception as exc:  # noqa: BLE001
                ctx.violation("fmm-cache-history/%s/exception:%s" % (family, type(exc).__name__), case, repr(exc))
                continue
            ctx.transitions += len(hist)
            ctx.case(("fmm-history", family, hist), sub="fmm-cache-history", sample=case if len(ctx.samples) < 5 and len(hist) == 2 else None)
            ctx.check_close("fmm-cache-history/%s/%s" % (family, opn), case, got, dense[hist[-1]], TOL, "fmm-vs-dense(after history)")
        bem.clear_fmm_cache()


def run(ctx):
    install_stub()
    os.chdir(ctx.work)
    quick = ctx.tier == "quick"
    names = ["tet", "cube12"] if quick else ["tet", "cube12", "screen2x2", "octa"]
    orders = [(3, 4)] if quick else [(3, 4), (4, 4)]
    for meshname in names:
        mesh = meshes.get(meshname, ctx.seed)
        grid = SP.make_grid(mesh)
        doms = sorted(set(mesh[2].tolist()))
        for order in orders:
            for near in (["evaluate"] if quick else ["evaluate", "sparse"]):
                for family, k in SCALAR_FAMS:
                    if quick and meshname == "cube12" and family == "helmholtz" and k == 1.3:
                        continue
                    for label, dspec, tspec in space_pairs(mesh, quick, family):
                        for name in ("single_layer", "double_layer", "adjoint_double_layer"):
                            if quick and name != "single_layer" and label not in ("P1/P1", "P1seg-last/P1", "DP0seg-last/DP0seg-first", "P1sw/P1sw", "DP0seg-last-sw/P1sw"):
                                continue
                            check_boundary(ctx, meshname, grid, grid, family, name, k, label, dspec, tspec, order, near)
                    hyp = [("P1/P1", {"kind": "P1", "inc": True}, {"kind": "P1", "inc": True})]
                    if len(doms) > 1:
                        hyp.append(("P1seg-last/P1", {"kind": "P1", "sel": ("segments", (doms[-1],)), "inc": True}, {"kind": "P1", "inc": True}))
                        hyp.append(("P1sw/P1sw", {"kind": "P1", "inc": True, "swapped": (doms[-1],)}, {"kind": "P1", "inc": True, "swapped": (doms[0],)}))
                    for label, dspec, tspec in hyp:
                        check_boundary(ctx, meshname, grid, grid, family, "hypersingular", k, label, dspec, tspec, order, near)
                for k in MAXWELL_KS[: 1 if quick else 2]:
                    mx = [("RWG/SNC", {"kind": "RWG", "inc": True}, {"kind": "SNC", "inc": True})]
                    if len(doms) > 1:
                        mx.append(("RWGseg-last/SNC", {"kind": "RWG", "sel": ("segments", (doms[-1],)), "inc": True}, {"kind": "SNC", "inc": True}))
                        mx.append(("RWGsw/SNCsw", {"kind": "RWG", "inc": True, "swapped": (doms[-1],)}, {"kind": "SNC", "inc": True, "swapped": (doms[-1],)}))
                    if meshname == "tet" or (not quick and meshname == "cube12"):
                        mx.append(("BC/RBC", {"kind": "BC"}, {"kind": "RBC"}))
                    for label, dspec, tspec in mx:
                        for name in ("electric_field", "magnetic_field"):
                            check_boundary(ctx, meshname, grid, grid, "maxwell", name, k, label, dspec, tspec, order, near)
            # potentials
            for family, k in SCALAR_FAMS:
                for sspec in [{"kind": "P1", "inc": True}, {"kind": "DP0"}] + ([{"kind": "P1", "sel": ("segments", (doms[-1],)), "inc": True},
                                                                               {"kind": "DP0", "sel": ("segments", (doms[-1],))},
                                                                               {"kind": "P1", "inc": True, "swapped": (doms[-1],)}] if len(doms) > 1 else []):
                    for name in ("single_layer", "double_layer"):
                        check_potential(ctx, meshname, grid, family, name, k, sspec, order)
            for k in MAXWELL_KS[: 1 if quick else 2]:
                for sspec in [{"kind": "RWG", "inc": True}] + ([{"kind": "RWG", "sel": ("segments", (doms[-1],)), "inc": True}] if len(doms) > 1 else []):
                    for name in ("electric_field", "magnetic_field"):
                        check_potential(ctx, meshname, grid, "maxwell", name, k, sspec, order)
    # two different grids
    m1 = meshes.get("tet", ctx.seed)
    m2 = meshes.transform(meshes.get("octa", ctx.seed), t=(3.1, 0.4, -0.2))
    g1, g2 = SP.make_grid(m1), SP.make_grid(m2)
    for family, k in SCALAR_FAMS[: 2 if quick else 4]:
        for name in ("single_layer", "double_layer", "adjoint_double_layer", "hypersingular"):
            sp = {"kind": "P1", "inc": True}
            check_boundary(ctx, "tet|octa+t", g1, g2, family, name, k, "P1/P1", sp, sp, orders[0], "evaluate")
    for name in ("electric_field", "magnetic_field"):
        check_boundary(ctx, "tet|octa+t", g1, g2, "maxwell", name, 1.3, "RWG/SNC", {"kind": "RWG"}, {"kind": "SNC"}, orders[0], "evaluate")
    check_cache_histories(ctx, quick)
    if not quick:
        shipped(ctx)
    set_global(4, 4)
    ctx.require(ctx.cov.get("segment_cases", 0) > 0, "segment spaces whose support is not the first elements present")
    ctx.assumptions += ["exafmm replaced by an exact direct summation (bex/stubs/exafmm), value and gradient, zero at r = 0",
                        "tolerance 1e-10 relative to max|dense| (near-field subtraction cancels to rounding)"]
    return ctx.finish(rule="mesh x operator family x wavenumber x space pair (whole grid / segments that are not a prefix of the element "
                      "numbering / barycentric) x global quadrature order x near-field representation; every unit vector (full matrix) "
                      "and one complex vector; all potential operators likewise; distinct = distinct tuples")


def shipped(ctx):
    """Recorded reference vectors of the repository, reproduced within the tests' own tolerance 2e-3."""
    import bempp_cl.api as bem

    from bex.core import REPO

    data = os.path.join(REPO, "test/data")
    try:
        grid = bem.import_grid(os.path.join(data, "fmm_grid.msh"))
    except Exception as exc:  # noqa: BLE001
        ctx.violation("shipped/import", {"sub": "shipped"}, repr(exc))
        return
    set_global(4, 4)
    bem.GLOBAL_PARAMETERS.fmm.expansion_order = 10
    space = bem.function_space(grid, "P", 1)
    vec = np.load(os.path.join(data, "fmm_p1_vec.npy"))
    for fname, family, name, k in [("fmm_laplace_single", "laplace", "single_layer", None), ("fmm_laplace_double", "laplace", "double_layer", None),
                                   ("fmm_laplace_adjoint", "laplace", "adjoint_double_layer", None), ("fmm_laplace_hyper", "laplace", "hypersingular", None),
                                   ("fmm_helmholtz_single", "helmholtz", "single_layer", 1.5), ("fmm_helmholtz_hyper", "helmholtz", "hypersingular", 1.5)]:
        case = {"sub": "shipped", "file": fname}
        try:
            op = ops.boundary(family, name, space, space, space, k=k, assembler="fmm").weak_form()
            got = np.asarray(op @ vec).reshape(-1)
        except Exception as exc:  # noqa: BLE001
            ctx.violation("shipped/%s/exception:%s" % (fname, type(exc).__name__), case, repr(exc))
            continue
        want = np.load(os.path.join(data, fname + ".npy")).reshape(-1)
        err = float(np.max(np.abs(got - want) / np.abs(want)))
        ctx.case(("shipped", fname), sub="shipped")
        ctx.observe("shipped-rtol", err, 2e-3)
        if err > 2e-3:
            ctx.violation("shipped/%s" % fname, case, "recorded vector reproduced only to rtol %.2e" % err)
    bem.GLOBAL_PARAMETERS.fmm.expansion_order = 5


def replay(ctx, case):
    install_stub()
    os.chdir(ctx.work)
    if case["sub"] == "shipped":
        shipped(ctx)
        return
    if case["sub"] == "fmm-cache-history":
        check_cache_histories(ctx, False)
        return
    k = case["k"]
    if isinstance(k, dict):
        k = complex(k["re"], k["im"])
    if case["mesh"] == "tet|octa+t":
        g1 = SP.make_grid(meshes.get("tet", ctx.seed))
        g2 = SP.make_grid(meshes.transform(meshes.get("octa", ctx.seed), t=(3.1, 0.4, -0.2)))
    else:
        g1 = g2 = SP.make_grid(meshes.get(case["mesh"], ctx.seed))
    if case["sub"] == "boundary":
        check_boundary(ctx, case["mesh"], g1, g2, case["family"], case["operator"], k, case["spaces"],
                       SP.spec_from_json(case["domain"]), SP.spec_from_json(case["dual"]), tuple(case["order"]), case["near"])
    else:
        check_potential(ctx, case["mesh"], g1, case["family"], case["operator"], k, SP.spec_from_json(case["space"]), tuple(case["order"]))
    set_global(4, 4)
