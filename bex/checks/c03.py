"""C03 - boundary operators are equivariant under motion, scaling and relabelling.

(a),(b) E1 sweeps over rigid motions and scalings; (c) E2: breadth-first search over the labelling Cayley graph
(swap elements, transpose vertices, rotate local vertex order, reverse orientation + swapped_normals flag).
The expected matrix is D P A P' D with P (permutation) and D (signs) derived by matching the represented basis
functions of the two spaces as functions on the surface - not through any numbering rule of the library.
"""

import collections
import itertools

import numpy as np

from bex import ops
from bex import spaces as SP
from bex.checks.c01 import edge_classes
from bex.models import meshes
from bex.models import topo_ref as R

LEVEL = "model_checking"
TOL = 1e-11
VERT = np.array([[0.0, 1.0, 0.0, 1 / 3], [0.0, 0.0, 1.0, 1 / 3]])

SCALAR_FAMS = [("laplace", None), ("helmholtz", 1.3), ("helmholtz", 0.7 + 0.4j), ("modified_helmholtz", 0.9)]
HOMOGENEITY = {"single_layer": 3, "double_layer": 2, "adjoint_double_layer": 2, "hypersingular": 1, "identity": 2, "laplace_beltrami": 0,
               "electric_field": 2, "magnetic_field": 2}


def operator_list(quick):
    """(label, family, name, k, domain kind, dual kind)."""
    out = []
    sc = ["DP0", "DP1", "P1"]
    for family, k in SCALAR_FAMS:
        pairs = list(itertools.product(sc, sc)) if not quick else [("DP0", "DP0"), ("P1", "DP1"), ("DP1", "P1"), ("P1", "P1")]
        for name in ("single_layer", "double_layer", "adjoint_double_layer"):
            for d, t in pairs:
                if quick and name != "single_layer" and (d, t) not in (("P1", "DP1"), ("DP1", "P1")):
                    continue
                out.append(("%s-%s[%s,%s]%s" % (family[:3], name, d, t, "" if k is None else "k=%s" % k), family, name, k, d, t))
        for d, t in ([("P1", "P1"), ("P1", "DP1"), ("DP1", "P1"), ("DP1", "DP1")] if not quick else [("P1", "P1"), ("DP1", "P1")]):
            out.append(("%s-W[%s,%s]%s" % (family[:3], d, t, "" if k is None else "k=%s" % k), family, "hypersingular", k, d, t))
    for k in (1.3, 0.7 + 0.4j):
        out.append(("max-E k=%s" % k, "maxwell", "electric_field", k, "RWG", "SNC"))
        out.append(("max-H k=%s" % k, "maxwell", "magnetic_field", k, "RWG", "SNC"))
    for d, t in [("DP0", "DP0"), ("P1", "DP0"), ("DP1", "P1"), ("P1", "P1"), ("RWG", "SNC"), ("RWG", "RWG"), ("SNC", "SNC")]:
        out.append(("identity[%s,%s]" % (d, t), "sparse", "identity", None, d, t))
    for d, t in [("P1", "P1"), ("DP1", "P1")]:
        out.append(("LB[%s,%s]" % (d, t), "sparse", "laplace_beltrami", None, d, t))
    return out


SELECT = [None]  # selection applied to every space of the current labelling graph (junction grids need a proper selection)


def spec_of(kind, swapped=()):
    s = {"kind": kind, "swapped": tuple(swapped)}
    if SELECT[0] is not None:
        s["sel"] = SELECT[0]
    if kind in ("P1", "RWG", "SNC"):
        s["inc"] = True
    return s


def features(mesh, space):
    """Each global basis function as a dict {(element key, point key): value vector}; keys are geometric (rounded coordinates)."""
    v, e, d = mesh
    F = SP.global_functions(space, VERT)
    n = space.global_dof_count
    feats = [dict() for _ in range(n)]
    for t, vals in F.items():
        ekey = tuple(sorted(tuple(np.round(v[:, int(e[i, t])], 9)) for i in range(3)))
        pts = [tuple(np.round(v[:, int(e[i, t])], 9)) for i in range(3)] + [tuple(np.round(v[:, e[:, t]].mean(axis=1), 9))]
        for j in range(n):
            for q, pk in enumerate(pts):
                val = vals[:, q, j]
                if np.max(np.abs(val)) > 1e-13:
                    feats[j][(ekey, pk)] = val
    return feats


def match(feats_a, feats_b):
    """perm, sign with function b[j] == sign[j] * function a[perm[j]]; None if impossible."""
    perm, sign = [], []
    index = {}
    for i, fa in enumerate(feats_a):
        index.setdefault(frozenset(fa), []).append(i)
    for fb in feats_b:
        cands = index.get(frozenset(fb), [])
        found = None
        for i in cands:
            fa = feats_a[i]
            for s in (1.0, -1.0):
                if all(np.max(np.abs(fb[k] - s * fa[k])) < 1e-9 * (1 + np.max(np.abs(fa[k]))) for k in fb):
                    found = (i, s)
                    break
            if found:
                break
        if found is None:
            return None
        perm.append(found[0])
        sign.append(found[1])
    if sorted(perm) != list(range(len(feats_a))):
        return None
    return np.array(perm), np.array(sign)


def assemble(grid, op, par, swapped=(), assembler=None):
    label, family, name, k, dk, tk = op
    dom = SP.make_space(grid, spec_of(dk, swapped))
    dual = SP.make_space(grid, spec_of(tk, swapped))
    kw = {}
    if assembler and family != "sparse":
        kw["assembler"] = assembler
    A = ops.dense(ops.boundary(family, name, dom, dom, dual, k=k, par=par, **kw))
    return A, dom, dual


# ---------------------------------------------------------------------------
def check_motion_and_scaling(ctx, name, oplist, quick):
    mesh = meshes.get(name, ctx.seed)
    grid = SP.make_grid(mesh)
    par = ops.params(4, 4)
    motions = [("rot1+t1", meshes.rotation((0.3, -0.5, 0.8), 1.1), (0.7, -1.3, 2.1)), ("rot2+t2", meshes.rotation((1, 1, 0.2), 2.4), (1e2, -50.0, 25.0)),
               ("rot3", meshes.rotation((0, 0.1, 1), -0.7), (0.0, 0.0, 0.0))]
    if quick:
        motions = motions[:2]
    scales = [0.5, 3.0, 1e-3] if not quick else [3.0, 1e-3]
    for op in oplist:
        label, family, opn, k, dk, tk = op
        try:
            A, _, _ = assemble(grid, op, par)
        except Exception as exc:  # noqa: BLE001
            ctx.violation("equivariance/exception:%s/%s" % (type(exc).__name__, opn), {"sub": "motion", "mesh": name, "operator": label}, repr(exc))
            continue
        for mname, Rm, t in motions:
            g2 = SP.make_grid(meshes.transform(mesh, A=Rm, t=t))
            A2, _, _ = assemble(g2, op, par)
            ctx.case((name, label, mname), sub="rigid-motion")
            ctx.check_close("rigid-motion/%s/%s" % (family, opn), {"sub": "motion", "mesh": name, "operator": label, "motion": mname}, A2, A, 1e-10 if "t2" in mname else TOL,
                            "rigid-motion")
        for s in scales:
            g2 = SP.make_grid(meshes.transform(mesh, s=s))
            op2 = (label, family, opn, None if k is None else k / s, dk, tk)
            A2, _, _ = assemble(g2, op2, par)
            ctx.case((name, label, "scale", s), sub="scaling")
            ctx.check_close("scaling/%s/%s" % (family, opn), {"sub": "scaling", "mesh": name, "operator": label, "scale": s}, A2, A * s ** HOMOGENEITY[opn], TOL,
                            "scaling")


# ---------------------------------------------------------------------------
# labelling graph
# ---------------------------------------------------------------------------
QUICK = [False]


def generators(mesh, full):
    v, e, d = mesh
    M, N = e.shape[1], v.shape[1]
    gens = []
    if full:
        if M >= 2:
            gens.append(("swap-elements", 0, 1))
        for j in range(M):
            gens.append(("rot", j, 1))
            gens.append(("rot", j, 2))
        for j in range(M):
            gens.append(("reverse", j))
        for a in range(N - 1 if not QUICK[0] else 1):
            gens.append(("swap-vertices", a, a + 1))
    else:
        gens += [("reverse-element-order",), ("roll-vertices",), ("rot-alt",), ("reverse-domain",)]
    return gens


def apply_gen(state, gen):
    mesh, swapped = state
    v, e, d = mesh
    M, N = e.shape[1], v.shape[1]
    if gen[0] == "swap-elements":
        p = np.arange(M)
        p[[gen[1], gen[2]]] = p[[gen[2], gen[1]]]
        return meshes.perm_elements(mesh, p), swapped
    if gen[0] == "rot":
        r = [0] * M
        r[gen[1]] = gen[2]
        return meshes.rotate_local(mesh, r), swapped
    if gen[0] == "reverse":
        # physically reverse one element and flag its domain: only meaningful if the element is alone in its domain
        dom = int(d[gen[1]])
        if list(d).count(dom) != 1:
            return None
        sw = set(swapped)
        sw ^= {dom}
        return meshes.reverse_elements(mesh, [gen[1]]), tuple(sorted(sw))
    if gen[0] == "swap-vertices":
        p = np.arange(N)
        p[[gen[1], gen[2]]] = p[[gen[2], gen[1]]]
        return meshes.perm_vertices(mesh, p), swapped
    if gen[0] == "reverse-element-order":
        return meshes.perm_elements(mesh, np.arange(M)[::-1]), swapped
    if gen[0] == "roll-vertices":
        return meshes.perm_vertices(mesh, np.roll(np.arange(N), 2)), swapped
    if gen[0] == "rot-alt":
        return meshes.rotate_local(mesh, [(j % 3) for j in range(M)]), swapped
    if gen[0] == "reverse-domain":
        dom = int(sorted(set(d.tolist()))[0])
        sw = set(swapped)
        sw ^= {dom}
        return meshes.reverse_elements(mesh, [j for j in range(M) if d[j] == dom]), tuple(sorted(sw))
    raise ValueError(gen)


def canon(state):
    (v, e, d), sw = state
    return (v.tobytes(), e.tobytes(), d.tobytes(), sw)


def check_labelling(ctx, name, oplist, depth, full, classes, select=None):
    SELECT[0] = select
    try:
        _check_labelling(ctx, name, oplist, depth, full, classes)
    finally:
        SELECT[0] = None


def _check_labelling(ctx, name, oplist, depth, full, classes):
    base_mesh = meshes.get(name, ctx.seed)
    if full:
        # give every element its own domain index so that single elements can be reversed + flagged
        base_mesh = (base_mesh[0], base_mesh[1], np.arange(base_mesh[1].shape[1], dtype=np.int64))
    base = (base_mesh, ())
    par6, par9 = ops.params(4, 6), ops.params(4, 9)
    ref = {}
    g0 = SP.make_grid(base_mesh)
    for op in oplist:
        out = {}
        for tag, par in (("s6", par6), ("s9", par9)):
            A, dom, dual = assemble(g0, op, par)
            out[tag] = A
            if op[1] != "sparse":
                S, _, _ = assemble(g0, op, par, assembler="only_singular_part")
                out[tag + "-reg"] = A - S
        out["fd"], out["ft"] = features(base_mesh, dom), features(base_mesh, dual)
        ref[op[0]] = out
    seen = {canon(base)}
    frontier = collections.deque([(base, ())])
    ctx.states += 1
    if full and base_mesh[1].shape[1] >= 2:
        # second initial state: last element reversed and flagged (orientation flips need 3 generator steps otherwise)
        st2 = apply_gen(base, ("reverse", base_mesh[1].shape[1] - 1))
        if st2 is not None:
            start2 = (st2, ())
            frontier.append(start2)
    while frontier:
        state, hist = frontier.popleft()
        if len(hist) >= depth:
            continue
        for gen in generators(state[0], full):
            nxt = apply_gen(state, gen)
            if nxt is None:
                continue
            ctx.transitions += 1
            key = canon(nxt)
            if key in seen:
                continue
            seen.add(key)
            ctx.states += 1
            h2 = hist + (gen,)
            frontier.append((nxt, h2))
            mesh2, sw = nxt
            ec, vc = edge_classes(mesh2[1])
            classes[0] |= ec
            classes[1] |= vc
            grid2 = SP.make_grid(mesh2)
            case0 = {"sub": "labelling", "mesh": name, "full": full, "word": [list(g) for g in h2], "select": SELECT[0]}
            for op in oplist:
                label, family, opn, k, dk, tk = op
                case = dict(case0, operator=label)
                sig = "relabelling/%s/%s" % (family, opn)
                try:
                    res = {}
                    for tag, par in (("s6", par6), ("s9", par9)):
                        A2, dom2, dual2 = assemble(grid2, op, par, swapped=sw)
                        res[tag] = A2
                        if family != "sparse":
                            S2, _, _ = assemble(grid2, op, par, swapped=sw, assembler="only_singular_part")
                            res[tag + "-reg"] = A2 - S2
                except Exception as exc:  # noqa: BLE001
                    ctx.violation(sig + "/exception:" + type(exc).__name__, case, repr(exc))
                    continue
                md = match(ref[label]["fd"], features(mesh2, dom2))
                mt = match(ref[label]["ft"], features(mesh2, dual2))
                if md is None or mt is None:
                    ctx.violation(sig + "/space-not-equivariant", case, "basis functions of the relabelled space are not +- a permutation of the original ones")
                    continue
                (pd, sd), (pt, st) = md, mt
                ctx.case((name, label, h2), sub="relabelling", sample=case if len(ctx.samples) < 3 and len(h2) == 2 else None)

                def expect(A):
                    return (st[:, None] * A[np.ix_(pt, pd)]) * sd[None, :]

                scale = float(np.max(np.abs(ref[label]["s9"])))
                if family == "sparse":
                    ctx.check_close(sig, case, res["s9"], expect(ref[label]["s9"]), TOL, "relabelling(sparse)", scale=scale)
                    continue
                ctx.check_close(sig + "/regular-part", case, res["s9-reg"], expect(ref[label]["s9-reg"]), TOL, "relabelling(regular part)", scale=scale)
                e6 = float(np.max(np.abs(res["s6"] - expect(ref[label]["s6"]))) / scale)
                e9 = float(np.max(np.abs(res["s9"] - expect(ref[label]["s9"]))) / scale)
                # "up to singular-quadrature error": the quadrature error of each matrix is visible in the library's own order ladder
                # (|A(s=6) - A(s=9)|); the relabelled and the original matrix may differ by at most the sum of their errors, the
                # difference must shrink with the order, and be small in absolute terms at order 9
                q6 = max(float(np.max(np.abs(res["s6"] - res["s9"]))), float(np.max(np.abs(ref[label]["s6"] - ref[label]["s9"])))) / scale
                ctx.observe("relabelling(singular order 6)/own quadrature error", e6 / (q6 + 1e-13), 4.0)
                ctx.observe("relabelling(singular order 9)", e9, 5e-6)
                if e6 > 4 * q6 + 1e-11 or e9 > 5e-6 or (e6 > 1e-9 and e9 > 0.1 * e6):
                    ctx.violation(sig + "/singular-part", dict(case, diff6=e6, diff9=e9, quad6=q6),
                                  "relabelled matrix differs by %.2e (s=6) / %.2e (s=9); own quadrature error at s=6 is %.2e" % (e6, e9, q6))
    ctx.traces_validated = ctx.transitions


def check_dual_orientation(ctx, name):
    """Orientation flips for spaces on the dual (barycentric) grid: a domain stored with reversed orientation and flagged in
    swapped_normals must give the same operators as the consistently oriented grid.  Dual spaces have no dense assembly; the operators
    are assembled in FMM mode with the exact-summation stand-in for exafmm (C17's stub), all unit vectors."""
    import bempp_cl.api as bem

    from bex.checks import c17

    c17.install_stub()
    mesh = meshes.get(name, ctx.seed)
    v, e, d = mesh
    doms = sorted(set(d.tolist()))
    flip = doms[0]
    mesh2 = meshes.reverse_elements(mesh, [j for j in range(e.shape[1]) if d[j] == flip])
    g1, g2 = SP.make_grid(mesh), SP.make_grid(mesh2)
    pairs = [("DUAL0", {"kind": "DUAL0", "inc": True, "trunc": False}), ("DUAL1", {"kind": "DUAL1"})]
    for kind, spec in pairs:
        s1 = SP.make_space(g1, dict(spec))
        s2 = SP.make_space(g2, dict(spec, swapped=(flip,)))
        n = s1.global_dof_count
        if s2.global_dof_count != n:
            ctx.violation("orientation/dual/%s/dof-count" % kind, {"sub": "dual-orientation", "mesh": name, "space": kind}, "%d vs %d dofs" % (n, s2.global_dof_count))
            continue
        for family, k in ((("laplace", None),) if QUICK[0] else (("laplace", None), ("helmholtz", 0.7 + 0.4j))):
            for opn in ("single_layer", "double_layer", "adjoint_double_layer"):
                case = {"sub": "dual-orientation", "mesh": name, "space": kind, "family": family, "k": k, "operator": opn, "flipped_domain": int(flip)}
                sig = "orientation/dual/%s/%s" % (family, opn)
                res = {}
                try:
                    for tag, s_ in (("s6", 6), ("s9", 9)):
                        par = ops.params(4, s_)
                        A1 = c17.matrix_of(ops.boundary(family, opn, s1, s1, s1, k=k, par=par, assembler="fmm").weak_form(), n)
                        A2 = c17.matrix_of(ops.boundary(family, opn, s2, s2, s2, k=k, par=par, assembler="fmm").weak_form(), n)
                        res[tag] = (A1, A2)
                except Exception as exc:  # noqa: BLE001
                    ctx.violation(sig + "/exception:" + type(exc).__name__, case, repr(exc))
                    continue
                finally:
                    bem.clear_fmm_cache()
                scale = float(np.max(np.abs(res["s9"][0])))
                e6 = float(np.max(np.abs(res["s6"][0] - res["s6"][1]))) / scale
                e9 = float(np.max(np.abs(res["s9"][0] - res["s9"][1]))) / scale
                q6 = max(float(np.max(np.abs(res["s6"][i] - res["s9"][i]))) for i in (0, 1)) / scale
                ctx.case((name, "dual-orientation", kind, family, opn), sub="dual-orientation", sample=case if len(ctx.samples) < 4 else None)
                ctx.observe("dual-orientation(singular order 9)", e9, 5e-6)
                if e6 > 4 * q6 + 1e-11 or e9 > 5e-6 or (e6 > 1e-9 and e9 > 0.1 * e6):
                    ctx.violation(sig, dict(case, diff6=e6, diff9=e9, quad6=q6),
                                  "%s operator on the grid with domain %d reversed + swapped_normals differs from the consistently oriented grid by "
                                  "%.2e (s=6) / %.2e (s=9); own quadrature error at s=6 is %.2e" % (kind, flip, e6, e9, q6))


def check_segment_orientation(ctx, name):
    """Orientation flips next to a segment space: the space lives on one domain but, with include_boundary_dofs=True and
    truncate_at_segment_edge=False, its support extends into the neighbouring domain.  That neighbour stored reversed and flagged in
    swapped_normals must give the same operators as the consistently oriented grid (dense assembly)."""
    mesh = meshes.get(name, ctx.seed)
    v, e, d = mesh
    doms = sorted(set(d.tolist()))
    keep, flip = doms[0], doms[-1]
    mesh2 = meshes.reverse_elements(mesh, [j for j in range(e.shape[1]) if d[j] == flip])
    g1, g2 = SP.make_grid(mesh), SP.make_grid(mesh2)
    sel = ("segments", (keep,))
    combos = [("laplace", "double_layer", None, "P1", "P1"), ("laplace", "adjoint_double_layer", None, "P1", "P1"), ("laplace", "hypersingular", None, "P1", "P1"),
              ("helmholtz", "hypersingular", 0.7 + 0.4j, "P1", "P1"), ("laplace", "single_layer", None, "P1", "P1"),
              ("maxwell", "electric_field", 1.3, "RWG", "SNC"), ("maxwell", "magnetic_field", 1.3, "RWG", "SNC"), ("sparse", "identity", None, "RWG", "SNC")]
    for family, opn, k, dk, tk in combos:
        def mk(grid, kind, sw):
            return SP.make_space(grid, {"kind": kind, "sel": sel, "inc": True, "trunc": False, "swapped": sw})
        case = {"sub": "segment-orientation", "mesh": name, "family": family, "operator": opn, "k": k, "spaces": [dk, tk], "segment": int(keep), "flipped_domain": int(flip)}
        sig = "orientation/segment-space/%s/%s" % (family, opn)
        res = {}
        try:
            for tag, s_ in (("s6", 6), ("s9", 9)):
                par = ops.params(4, s_)
                A1 = ops.dense(ops.boundary(family, opn, mk(g1, dk, ()), mk(g1, dk, ()), mk(g1, tk, ()), k=k, par=par))
                A2 = ops.dense(ops.boundary(family, opn, mk(g2, dk, (flip,)), mk(g2, dk, (flip,)), mk(g2, tk, (flip,)), k=k, par=par))
                res[tag] = (A1, A2)
        except Exception as exc:  # noqa: BLE001
            ctx.violation(sig + "/exception:" + type(exc).__name__, case, repr(exc))
            continue
        # dofs are attached to vertices / edges, whose numbering the reversal does not touch; edge functions may change sign
        A1, A2 = res["s9"]
        if A1.shape != A2.shape:
            ctx.violation(sig + "/shape", case, "%s vs %s" % (A1.shape, A2.shape))
            continue
        scale = float(np.max(np.abs(A1))) or 1.0

        def signs(M1, M2):
            """row / column signs (+-1) with M2 ~ Dr M1 Dc, from the largest entries."""
            if dk == "P1":
                return np.ones(M1.shape[0]), np.ones(M1.shape[1])
            j0 = int(np.argmax(np.max(np.abs(M1), axis=0)))
            dr = np.where(np.abs(M1[:, j0]) > 1e-8 * scale, np.sign(np.real(M2[:, j0] / np.where(M1[:, j0] == 0, 1, M1[:, j0]))), 1.0)
            i0 = int(np.argmax(np.abs(M1[:, j0])))
            dc = np.array([np.sign(np.real((M2[i, j] / M1[i, j]) * dr[i])) if abs(M1[i, j]) > 1e-8 * scale else 1.0
                           for j in range(M1.shape[1]) for i in [int(np.argmax(np.abs(M1[:, j])))]])
            dr[dr == 0] = 1.0
            dc[dc == 0] = 1.0
            return dr, dc

        dr, dc = signs(A1, A2)
        fix = lambda M: dr[:, None] * M * dc[None, :]  # noqa: E731
        e6 = float(np.max(np.abs(fix(res["s6"][0]) - res["s6"][1]))) / scale
        e9 = float(np.max(np.abs(fix(res["s9"][0]) - res["s9"][1]))) / scale
        q6 = max(float(np.max(np.abs(res["s6"][i] - res["s9"][i]))) for i in (0, 1)) / scale
        ctx.case((name, "segment-orientation", family, opn), sub="segment-orientation", sample=case if len(ctx.samples) < 5 else None)
        ctx.observe("segment-orientation(singular order 9)", e9, 5e-6)
        if e6 > 4 * q6 + 1e-11 or e9 > 5e-6 or (e6 > 1e-9 and e9 > 0.1 * e6):
            ctx.violation(sig, dict(case, diff6=e6, diff9=e9, quad6=q6),
                          "operator on segment %d with the neighbouring domain %d reversed + swapped_normals differs from the consistently oriented grid by "
                          "%.2e (s=6) / %.2e (s=9); own quadrature error at s=6 is %.2e" % (keep, flip, e6, e9, q6))


def check_bary_space_labelling(ctx, name, depth):
    """Spaces on the barycentric refinement (BC, RBC, DUAL0, DUAL1) are functions of the geometry: relabelling vertices / elements must
    give the same functions up to permutation and sign, and the permuted mixed mass matrices.  E2 over the coarse labelling generators."""
    base_mesh = meshes.get(name, ctx.seed)
    closed = R.is_closed_manifold(base_mesh[1])
    fams = [("BC", {"kind": "BC"}), ("RBC", {"kind": "RBC"}), ("DUAL0", {"kind": "DUAL0", "inc": True, "trunc": False}), ("DUAL1", {"kind": "DUAL1"})]
    partner = {"BC": {"kind": "SNC", "inc": True}, "RBC": {"kind": "RWG", "inc": True}, "DUAL0": {"kind": "P1", "inc": True}, "DUAL1": {"kind": "DP0"}}
    g0 = SP.make_grid(base_mesh)
    ref = {}
    for kind, spec in fams:
        try:
            sp = SP.make_space(g0, dict(spec))
            pt = SP.make_space(g0, dict(partner[kind]))
        except Exception:  # noqa: BLE001
            continue
        if sp.global_dof_count == 0:
            continue
        bm = SP.mesh_of_grid(sp.grid)
        M = ops.dense(ops.boundary("sparse", "identity", sp, sp, pt))
        ref[kind] = (features(bm, sp), features(base_mesh, pt), M)
    seen = {canon((base_mesh, ()))}
    frontier = collections.deque([((base_mesh, ()), ())])
    while frontier:
        state, hist = frontier.popleft()
        if len(hist) >= depth:
            continue
        gens = [("reverse-element-order",), ("roll-vertices",), ("rot-alt",)] + [("swap-vertices", a, a + 1) for a in range(base_mesh[0].shape[1] - 1)]
        for gen in gens:
            nxt = apply_gen(state, gen)
            if nxt is None or canon(nxt) in seen:
                continue
            seen.add(canon(nxt))
            ctx.states += 1
            ctx.transitions += 1
            h2 = hist + (gen,)
            frontier.append((nxt, h2))
            mesh2, _ = nxt
            g2 = SP.make_grid(mesh2)
            for kind, spec in fams:
                if kind not in ref:
                    continue
                case = {"sub": "bary-labelling", "mesh": name, "space": kind, "word": [list(g) for g in h2]}
                sig = "relabelling/barycentric-space/%s" % kind
                try:
                    sp2 = SP.make_space(g2, dict(spec))
                    pt2 = SP.make_space(g2, dict(partner[kind]))
                    M2 = ops.dense(ops.boundary("sparse", "identity", sp2, sp2, pt2))
                except Exception as exc:  # noqa: BLE001
                    ctx.violation(sig + "/exception:" + type(exc).__name__, case, repr(exc))
                    continue
                md = match(ref[kind][0], features(SP.mesh_of_grid(sp2.grid), sp2))
                mt = match(ref[kind][1], features(mesh2, pt2))
                ctx.case((name, "bary", kind, h2), sub="bary-labelling", sample=case if len(ctx.samples) < 6 and len(h2) == 1 else None)
                if md is None or mt is None:
                    ctx.violation(sig + "/space-not-equivariant", case, "the %s functions of the relabelled grid are not +- a permutation of the original ones" % kind)
                    continue
                (pd, sd), (pt_, st) = md, mt
                want = (st[:, None] * ref[kind][2][np.ix_(pt_, pd)]) * sd[None, :]
                ctx.check_close(sig + "/mass", case, M2, want, TOL, "relabelling(mixed mass)", scale=float(np.max(np.abs(want))))


def memoise_duffy():
    """The singular rules are pure functions of the order generated by Python loops (n^4 iterations); this check assembles several
    thousand tiny operators, so the generator is memoised for the duration of the run (its results are copied on every use)."""
    from bempp_cl.api.integration import duffy_galerkin

    if getattr(duffy_galerkin.rule, "_bex_memo", False):
        return
    orig = duffy_galerkin.rule
    cache = {}

    def rule(order, adjacency):
        key = (order, adjacency)
        if key not in cache:
            cache[key] = orig(order, adjacency)
        return tuple(np.array(a, copy=True, order="F" if a.ndim == 2 else "C") for a in cache[key])

    rule._bex_memo = True
    duffy_galerkin.rule = rule


def run(ctx):
    quick = ctx.tier == "quick"
    QUICK[0] = quick
    memoise_duffy()
    oplist = operator_list(quick)
    small = [op for op in oplist]
    if quick:
        # labelling graph, quick tier: one operator per (assembler function, kernel family) and per space kind on each side
        keep = ("lap-single_layer[DP0,DP0]", "lap-single_layer[P1,DP1]", "hel-double_layer[P1,DP1]k=(0.7+0.4j)", "hel-adjoint_double_layer[DP1,P1]k=1.3",
                "mod-double_layer[DP1,P1]k=0.9", "lap-W[P1,P1]", "hel-W[DP1,P1]k=(0.7+0.4j)", "mod-W[P1,P1]k=0.9", "max-E k=1.3", "max-H k=(0.7+0.4j)",
                "identity[P1,DP0]", "identity[RWG,SNC]", "LB[P1,P1]")
        small = [op for op in oplist if op[0] in keep]
        if len(small) != len(keep):
            raise RuntimeError("operator subset names out of date: %s" % sorted(set(keep) - {o[0] for o in small}))
    for name in (["edge2", "tet"] if quick else ["edge2", "bow2", "fan4", "tet", "cube12", "nested", "screen2x2"]):
        check_motion_and_scaling(ctx, name, small if quick else oplist, quick)
    classes = [set(), set()]
    for name in ["edge2", "bow2"]:
        check_labelling(ctx, name, small, 2 if quick else 3, True, classes)
    for name in (["tet", "fan4"] if quick else ["fan4", "tet", "cube12", "nested", "screen2x2"]):
        check_labelling(ctx, name, small, 1 if quick else 2, False, classes)
    # junction grid: three triangles around one edge, every space restricted to two of them (edge functions are defined by the two
    # selected neighbours; which of the three elements has the lowest index changes along the graph)
    junction_ops = [op for op in small if op[0] in ("identity[RWG,SNC]", "max-E k=1.3", "lap-single_layer[P1,DP1]", "identity[P1,DP0]")]
    before = ctx.states
    check_labelling(ctx, "book3", junction_ops, 2 if quick else 3, True, [set(), set()], select=("segments", (1, 2)))
    ctx.cov["junction_labelling_states"] = ctx.states - before
    for name in (["tet"] if quick else ["tet", "octa", "cube12"]):
        check_dual_orientation(ctx, name)
    for name in (["octa"] if quick else ["octa", "tet", "cube12"]):
        check_segment_orientation(ctx, name)
    for name in (["strip4", "fan5"] if quick else ["strip4", "fan5", "fan4", "screen2x2", "tet", "octa"]):
        check_bary_space_labelling(ctx, name, 1 if quick else 2)
    ctx.cov["edge_adjacency_classes"] = len(classes[0])
    ctx.cov["vertex_adjacency_classes"] = len(classes[1])
    ctx.require(len(classes[0]) == 18, "all 18 (test remap, trial remap) edge classes realised in the labelling graph: %d" % len(classes[0]))
    ctx.require(len(classes[1]) == 9, "all 9 vertex classes realised: %d" % len(classes[1]))
    ctx.assumptions += ["the relabelled space's dofs are matched to the original ones by comparing the represented functions at element vertices and centroids",
                        "regular parts to rounding because the triangle rule of order 4 is a symmetric point set; singular parts quadrature-class (at singular order 6 within "
                        "4x the library's own order-6-vs-9 difference, at order 9 below 5e-6 and at most a tenth of the order-6 difference)"]
    return ctx.finish(rule="(a),(b): mesh x every operator/space combination x rigid motions x scalings; (c): BFS over the labelling Cayley graph "
                      "{swap elements, rotate local order of one element, reverse one element + flag it in swapped_normals, transpose adjacent vertex labels} "
                      "to depth 2 (3) on edge2/bow2 and coarse generators to depth 1 (2) on larger meshes; every state x every operator; "
                      "distinct = (mesh, operator, transformation/word)",
                      extra={"operators": len(oplist)})


def replay(ctx, case):
    quick = False
    oplist = [op for op in operator_list(False) if op[0] == case.get("operator")] or operator_list(True)
    if case["sub"] == "segment-orientation":
        memoise_duffy()
        check_segment_orientation(ctx, case["mesh"])
        return
    if case["sub"] == "bary-labelling":
        check_bary_space_labelling(ctx, case["mesh"], len(case["word"]))
        return
    if case["sub"] == "dual-orientation":
        memoise_duffy()
        check_dual_orientation(ctx, case["mesh"])
        return
    if case["sub"] in ("motion", "scaling"):
        check_motion_and_scaling(ctx, case["mesh"], oplist, False)
    else:
        sel = case.get("select")
        if sel:
            sel = (sel[0], tuple(sel[1]))
        check_labelling(ctx, case["mesh"], oplist, len(case["word"]), case.get("full", False), [set(), set()], select=sel)
