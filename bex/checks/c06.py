"""C06 - hypersingular and Maxwell operators equal their single-layer decompositions (E1 sweep)."""

import numpy as np

from bex import ops
from bex import spaces as SP
from bex.models import meshes
from bex.models import topo_ref as R

LEVEL = "exploration"
TOL = 1e-11
VERT = np.array([[0.0, 1.0, 0.0], [0.0, 0.0, 1.0]])
REF_GRAD = np.array([[-1.0, 1.0, 0.0], [-1.0, 0.0, 1.0]])


def scalar_maps(mesh, space):
    """C_c (P1 coefficients -> DP0: component c of n x grad) and N_c (-> DP1: n_c phi), c = 0,1,2."""
    v, e, d = mesh
    g = R.geometry(v, e)
    M = e.shape[1]
    T = np.asarray(space.map_to_full_grid.todense())  # (3M, ndof)
    nm = np.asarray(space.normal_multipliers)
    C = [np.zeros((M, 3 * M)) for _ in range(3)]
    N = [np.zeros((3 * M, 3 * M)) for _ in range(3)]
    for t in range(M):
        G = g["jit"][t] @ REF_GRAD  # columns: surface gradients of the three local hat functions
        n = g["normals"][t] * nm[t]
        for i in range(3):
            curl = np.cross(n, G[:, i])
            for c in range(3):
                C[c][t, 3 * t + i] = curl[c]
                N[c][3 * t + i, 3 * t + i] = n[c]
    return [c @ T for c in C], [n @ T for n in N]


def edge_maps(mesh, space, untwist):
    """R_c (edge-space coefficients -> DP1: Cartesian component c at the vertices) and D (-> DP0: surface divergence).

    Built from space.evaluate at the element vertices; SNC functions are untwisted (psi x n) first."""
    v, e, d = mesh
    g = R.geometry(v, e)
    M = e.shape[1]
    F = SP.global_functions(space, VERT)  # element -> (3, 3 pts, ndof)
    nm = np.asarray(space.normal_multipliers)
    nd = space.global_dof_count
    Rm = [np.zeros((3 * M, nd)) for _ in range(3)]
    D = np.zeros((M, nd))
    for t, vals in F.items():
        n = g["normals"][t] * nm[t]
        f = vals
        if untwist:
            f = np.cross(vals, n[:, None, None], axis=0)
        G = g["jit"][t] @ REF_GRAD
        for i in range(3):
            for c in range(3):
                Rm[c][3 * t + i, :] = f[c, i, :]
            D[t, :] += G[:, i] @ f[:, i, :]
    return Rm, D


def scalar_specs(mesh, quick):
    doms = sorted(set(mesh[2].tolist()))
    out = [{"kind": "P1", "inc": True, "trunc": True}, {"kind": "DP1"}]
    if len(doms) > 1:
        out += [{"kind": "P1", "sel": ("segments", (doms[-1],)), "inc": True, "trunc": True},
                {"kind": "P1", "sel": ("segments", (doms[0],)), "inc": True, "trunc": False},
                {"kind": "P1", "sel": ("segments", (doms[0],)), "inc": False, "trunc": True},
                {"kind": "P1", "swapped": (doms[0],), "inc": True}]
    return out


def edge_specs(mesh, kind):
    doms = sorted(set(mesh[2].tolist()))
    out = [{"kind": kind, "inc": True, "trunc": True}, {"kind": kind, "inc": False, "trunc": True}]
    if len(doms) > 1:
        out += [{"kind": kind, "sel": ("segments", (doms[-1],)), "inc": True, "trunc": True},
                {"kind": kind, "sel": ("segments", (doms[0],)), "inc": True, "trunc": False},
                {"kind": kind, "sel": ("segments", (doms[0],)), "inc": False, "trunc": True}]
    return out


def check_mesh(ctx, name, quick):
    mesh = meshes.get(name, ctx.seed)
    grid = SP.make_grid(mesh)
    v, e, d = mesh
    closed = R.is_closed_manifold(e)
    orders = [(4, 4)] if quick else [(4, 4), (6, 5)]
    fams = [("laplace", None), ("helmholtz", 1.1), ("helmholtz", 0.8 + 0.3j), ("modified_helmholtz", 0.7)]
    for order in orders:
        par = ops.params(*order)
        for family, k in fams:
            swapped_sets = {()}
            specs = [s for s in scalar_specs(mesh, quick)]
            cache = {}
            for ts in specs:
                for ds in specs:
                    if quick and ts is not ds and (ts.get("sel") == ds.get("sel")):
                        continue
                    sw = tuple(ts.get("swapped") or ())
                    if tuple(ds.get("swapped") or ()) != sw:
                        continue
                    try:
                        tsp = SP.make_space(grid, dict({"sel": ("all",)}, **ts))
                        dsp = SP.make_space(grid, dict({"sel": ("all",)}, **ds))
                    except Exception:  # noqa: BLE001
                        continue
                    if tsp.global_dof_count == 0 or dsp.global_dof_count == 0 or not np.asarray(tsp.support).any() or not np.asarray(dsp.support).any():
                        continue
                    if sw not in cache:
                        p0 = SP.make_space(grid, {"kind": "DP0", "swapped": sw})
                        p1 = SP.make_space(grid, {"kind": "DP1", "swapped": sw})
                        V0 = ops.dense(ops.boundary(family, "single_layer", p0, p0, p0, k=k, par=par))
                        V1 = ops.dense(ops.boundary(family, "single_layer", p1, p1, p1, k=k, par=par))
                        cache[sw] = (V0, V1)
                    V0, V1 = cache[sw]
                    Ct, Nt = scalar_maps(mesh, tsp)
                    Cd, Nd = scalar_maps(mesh, dsp)
                    ref = sum(Ct[c].T @ V0 @ Cd[c] for c in range(3))
                    if family == "helmholtz":
                        ref = ref - k * k * sum(Nt[c].T @ V1 @ Nd[c] for c in range(3))
                    elif family == "modified_helmholtz":
                        ref = ref + k * k * sum(Nt[c].T @ V1 @ Nd[c] for c in range(3))
                    case = {"sub": "hypersingular", "mesh": name, "family": family, "k": k, "test": SP.spec_json(dict({"sel": ("all",)}, **ts)),
                            "trial": SP.spec_json(dict({"sel": ("all",)}, **ds)), "order": list(order)}
                    sig = "hypersingular-decomposition/%s/%s-%s" % (family, ts["kind"], ds["kind"])
                    try:
                        W = ops.dense(ops.boundary(family, "hypersingular", dsp, dsp, tsp, k=k, par=par))
                    except Exception as exc:  # noqa: BLE001
                        ctx.violation(sig + "/exception:" + type(exc).__name__, case, repr(exc))
                        continue
                    ctx.case((name, family, repr(k), SP.spec_key(dict({"sel": ("all",)}, **ts)), SP.spec_key(dict({"sel": ("all",)}, **ds)), order), sub="hypersingular",
                             sample=case if len(ctx.samples) < 2 and ts is not ds else None)
                    scale = float(np.max(np.abs(V0))) * float(np.max(np.abs(np.hstack(Cd)))) * float(np.max(np.abs(np.hstack(Ct)))) * 3
                    ctx.check_close(sig, case, W, ref, TOL, "W-vs-decomposition", scale=max(scale, float(np.max(np.abs(ref)))))
                    if family == "laplace" and closed and ts is ds and ts.get("sel", ("all",))[0] == "all" and ts["kind"] == "P1":
                        ctx.check_close("hypersingular-annihilates-constants", case, W @ np.ones(W.shape[1]), np.zeros(W.shape[0]), TOL, "W*1=0",
                                        scale=float(np.max(np.abs(W))) * W.shape[1])
        # Maxwell
        for k in (1.1, 0.8 + 0.3j):
            p0 = SP.make_space(grid, {"kind": "DP0"})
            p1 = SP.make_space(grid, {"kind": "DP1"})
            V0 = ops.dense(ops.boundary("helmholtz", "single_layer", p0, p0, p0, k=k, par=par))
            V1 = ops.dense(ops.boundary("helmholtz", "single_layer", p1, p1, p1, k=k, par=par))
            for ts in edge_specs(mesh, "SNC"):
                for ds in edge_specs(mesh, "RWG"):
                    if quick and ts.get("sel") != ds.get("sel") and ts.get("sel") is not None and ds.get("sel") is not None:
                        continue
                    try:
                        tsp = SP.make_space(grid, dict({"sel": ("all",)}, **ts))
                        dsp = SP.make_space(grid, dict({"sel": ("all",)}, **ds))
                    except Exception:  # noqa: BLE001
                        continue
                    if min(tsp.global_dof_count, dsp.global_dof_count) == 0 or not np.asarray(tsp.support).any() or not np.asarray(dsp.support).any():
                        continue
                    from bex.checks.c10 import c09_empty
                    if c09_empty(mesh, dict({"sel": ("all",)}, **ts)) or c09_empty(mesh, dict({"sel": ("all",)}, **ds)):
                        continue
                    Rt, Dt = edge_maps(mesh, tsp, True)
                    Rd, Dd = edge_maps(mesh, dsp, False)
                    ref = -1j * k * sum(Rt[c].T @ V1 @ Rd[c] for c in range(3)) - (1.0 / (1j * k)) * (Dt.T @ V0 @ Dd)
                    case = {"sub": "maxwell", "mesh": name, "k": k, "test": SP.spec_json(dict({"sel": ("all",)}, **ts)),
                            "trial": SP.spec_json(dict({"sel": ("all",)}, **ds)), "order": list(order)}
                    sig = "efield-decomposition"
                    try:
                        E = ops.dense(ops.boundary("maxwell", "electric_field", dsp, dsp, tsp, k=k, par=par))
                    except Exception as exc:  # noqa: BLE001
                        ctx.violation(sig + "/exception:" + type(exc).__name__, case, repr(exc))
                        continue
                    ctx.case((name, "E", repr(k), SP.spec_key(dict({"sel": ("all",)}, **ts)), SP.spec_key(dict({"sel": ("all",)}, **ds)), order), sub="maxwell",
                             sample=case if len(ctx.samples) < 4 and ts.get("sel") else None)
                    sc = float(np.max(np.abs(V0)) * np.max(np.abs(Dt)) * np.max(np.abs(Dd)) / abs(k) + abs(k) * np.max(np.abs(V1)) * np.max(np.abs(np.hstack(Rt))) * np.max(np.abs(np.hstack(Rd))) * 3)
                    ctx.check_close(sig, case, E, ref, TOL, "E-vs-decomposition", scale=max(sc, float(np.max(np.abs(ref)))))


def check_symmetry(ctx, name, quick):
    """E and H complex symmetric when test and trial functions come from the same edge space: QUAD in the singular order."""
    mesh = meshes.get(name, ctx.seed)
    grid = SP.make_grid(mesh)
    rwg = SP.make_space(grid, {"kind": "RWG", "inc": True})
    snc = SP.make_space(grid, {"kind": "SNC", "inc": True})
    for opname in ("electric_field", "magnetic_field"):
        for k in (1.1, 0.8 + 0.3j):
            asym = []
            ladder = [(4, 4), (8, 8), (10, 10)] if quick else [(4, 4), (6, 6), (8, 8), (10, 10), (12, 10)]
            for r, s in ladder:
                A = ops.dense(ops.boundary("maxwell", opname, rwg, rwg, snc, k=k, par=ops.params(r, s)))
                asym.append(float(np.max(np.abs(A - A.T)) / np.max(np.abs(A))))
                ctx.case((name, opname, repr(k), r, s), sub="symmetry")
            case = {"sub": "symmetry", "mesh": name, "operator": opname, "k": k, "asymmetry": asym, "ladder": [list(x) for x in ladder]}
            ctx.observe("maxwell-asymmetry-top", asym[-1], 1e-5)
            if asym[0] > 5e-2 or asym[-1] > 1e-5 or (asym[0] > 1e-9 and asym[-1] > 0.5 * asym[0]):
                ctx.violation("maxwell-symmetry/%s" % opname, case, "asymmetry along the order ladder: %s" % ["%.1e" % x for x in asym])
            if len(ctx.samples) < 6:
                ctx.samples.append(case)


def run(ctx):
    quick = ctx.tier == "quick"
    names = ["edge2", "fan4", "tet", "octa"] if quick else ["edge2", "fan4", "screen2x2", "tet", "octa", "cube12"]
    for name in names:
        check_mesh(ctx, name, quick)
    for name in (["tet"] if quick else ["tet", "cube12"]):
        check_symmetry(ctx, name, quick)
    ctx.assumptions += ["C, N built from geometry (surface gradients of the local hat functions) and map_to_full_grid; R, D built from space.evaluate at the "
                        "element vertices (SNC test functions untwisted by x n) - none of them reads the kernel code",
                        "V0, V1 = the library's own single-layer matrices of the same wavenumber on full-grid DP0 / DP1"]
    return ctx.finish(rule="mesh x family/wavenumber x independent test/trial space variants (whole grid, segments, boundary-dof / truncation options, swapped "
                      "normals) x order pairs for W; the same for the Maxwell electric field with SNC/RWG variants; symmetry ladders for E and H; "
                      "distinct = distinct tuples")


def replay(ctx, case):
    if case["sub"] == "symmetry":
        check_symmetry(ctx, case["mesh"], True)
    else:
        check_mesh(ctx, case["mesh"], False)
