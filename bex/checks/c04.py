"""C04 - operators on a subspace are congruence transforms of those on the full-grid discontinuous space;
nested refinement (E1 sweep)."""

import itertools

import numpy as np

from bex import ops
from bex import spaces as SP
from bex.models import meshes
from bex.models import topo_ref as R

LEVEL = "exploration"
TOL = 1e-11


def variants(mesh, shapeset, quick):
    """Space specs sharing a local basis (shapeset)."""
    v, e, d = mesh
    doms = sorted(set(d.tolist()))
    M = e.shape[1]
    sels = [("all",)]
    if len(doms) > 1:
        sels += [("segments", (doms[-1],)), ("segments", tuple(doms[:-1]))]
    if M >= 3:
        sels.append(("elements", tuple(range(1, M, 2))))
    out = []
    if shapeset == "p0":
        for sel in sels:
            out.append({"kind": "DP0", "sel": sel})
    elif shapeset == "p1":
        for sel in sels:
            out.append({"kind": "DP1", "sel": sel})
            opts = [(True, True), (False, True), (True, False)] if not quick else [(True, True), (True, False)]
            for inc, trunc in opts:
                out.append({"kind": "P1", "sel": sel, "inc": inc, "trunc": trunc})
    elif shapeset in ("rwg", "snc"):
        for sel in sels:
            opts = [(True, True), (False, True), (True, False)] if not quick else [(True, True), (True, False)]
            for inc, trunc in opts:
                out.append({"kind": "RWG" if shapeset == "rwg" else "SNC", "sel": sel, "inc": inc, "trunc": trunc})
    return out


def full_space(grid, shapeset):
    if shapeset == "p0":
        return SP.make_space(grid, {"kind": "DP0"})
    if shapeset == "p1":
        return SP.make_space(grid, {"kind": "DP1"})
    s = SP.make_space(grid, {"kind": "RWG" if shapeset == "rwg" else "SNC", "inc": True, "trunc": True})
    return s.localised_space


def build(mesh, grid, shapeset, quick):
    out = []
    for spec in variants(mesh, shapeset, quick):
        try:
            s = SP.make_space(grid, spec)
        except Exception:  # noqa: BLE001
            continue
        if not np.asarray(s.support).any() or s.global_dof_count == 0:
            continue
        T = np.asarray(s.map_to_full_grid.todense())
        if np.max(np.abs(T)) == 0:
            continue
        out.append((spec, s, T))
    return out


OPERATORS = [
    # (label, family, name, k, test shapeset, trial shapeset)
    ("V", "laplace", "single_layer", None, ("p0", "p1"), ("p0", "p1")),
    ("Kc", "helmholtz", "double_layer", 1.1 + 0.3j, ("p0", "p1"), ("p0", "p1")),
    ("W", "laplace", "hypersingular", None, ("p1",), ("p1",)),
    ("Wk", "helmholtz", "hypersingular", 0.9 + 0.2j, ("p1",), ("p1",)),
    ("Wm", "modified_helmholtz", "hypersingular", 0.8, ("p1",), ("p1",)),
    ("E", "maxwell", "electric_field", 1.2, ("snc",), ("rwg",)),
    ("Hc", "maxwell", "magnetic_field", 0.7 + 0.2j, ("snc",), ("rwg",)),
    ("I", "sparse", "identity", None, ("p0", "p1"), ("p0", "p1")),
    ("Ivec", "sparse", "identity", None, ("snc", "rwg"), ("rwg",)),
    ("LB", "sparse", "laplace_beltrami", None, ("p1",), ("p1",)),
]


def check_congruence(ctx, meshname, mesh, quick):
    grid = SP.make_grid(mesh)
    spaces = {ss: build(mesh, grid, ss, quick) for ss in ("p0", "p1", "rwg", "snc")}
    full = {ss: full_space(grid, ss) for ss in ("p0", "p1", "rwg", "snc")}
    orders = [(4, 4)] if quick else [(4, 4), (3, 5)]
    for label, family, name, k, tss, dss in OPERATORS:
        for ts, ds in itertools.product(tss, dss):
            if family == "sparse" and name == "identity" and (ts in ("rwg", "snc")) != (ds in ("rwg", "snc")):
                continue
            for order in orders:
                par = ops.params(*order)
                try:
                    if family == "maxwell":
                        AD = ops.dense(ops.maxwell_raw(name, full[ds], full[ds], full[ts], k, par=par))
                    else:
                        AD = ops.dense(ops.boundary(family, name, full[ds], full[ds], full[ts], k=k, par=par))
                except Exception as exc:  # noqa: BLE001
                    raise RuntimeError("reference operator %s on full-grid discontinuous spaces failed: %r" % (label, exc))
                tv, dv = spaces[ts], spaces[ds]
                if quick:
                    # all pairs would be |variants|^2; in the quick tier every variant appears on each side at least twice
                    pairs = [(a, b) for i, a in enumerate(tv) for j, b in enumerate(dv) if (i + j) % max(1, len(dv) // 2) == 0 or i == j]
                else:
                    pairs = list(itertools.product(tv, dv))
                for (tspec, tsp, Tt), (dspec, dsp, Td) in pairs:
                    case = {"sub": "congruence", "mesh": meshname, "operator": label, "test": SP.spec_json(tspec), "trial": SP.spec_json(dspec), "order": list(order)}
                    sig = "congruence/%s/%s-%s" % (label, tspec["kind"], dspec["kind"])
                    try:
                        A = ops.dense(ops.boundary(family, name, dsp, dsp, tsp, k=k, par=par))
                    except Exception as exc:  # noqa: BLE001
                        ctx.violation(sig + "/exception:" + type(exc).__name__, case, repr(exc))
                        continue
                    ref = Tt.T @ AD @ Td
                    ctx.case((meshname, label, SP.spec_key(tspec), SP.spec_key(dspec), order), sub="congruence",
                             sample=case if (len(ctx.samples) < 3 and tspec["sel"][0] != "all" and dspec["sel"][0] != tspec["sel"][0]) else None)
                    ctx.cover("operators", label)
                    scale = float(np.max(np.abs(AD)))
                    ctx.check_close(sig, case, A, ref, TOL, "congruence", scale=scale)
                    # sub-block statement for DP spaces on a selection: T is a 0/1 selection
                    if tspec["kind"].startswith("DP") and dspec["kind"].startswith("DP"):
                        r = np.flatnonzero(Tt.sum(axis=1))
                        c = np.flatnonzero(Td.sum(axis=1))
                        ctx.check_close(sig + "/sub-block", case, A, AD[np.ix_(r, c)], TOL, "sub-block", scale=scale)


# ---------------------------------------------------------------------------
def prolongation(coarse_mesh, fine_mesh, kind):
    """P maps coarse coefficients to fine coefficients of the same function (DP0: parent lookup, P1: nodal interpolation)."""
    cv, ce, _ = coarse_mesh
    fv, fe, _ = fine_mesh
    from bex.checks.c11 import _locate_parent

    if kind == "DP0":
        P = np.zeros((fe.shape[1], ce.shape[1]))
        fc = R.geometry(fv, fe)["centroids"]
        for t in range(fe.shape[1]):
            par = _locate_parent(fc[t], cv, ce)
            if len(par) != 1:
                raise RuntimeError("fine centroid in %d coarse elements" % len(par))
            P[t, par[0]] = 1.0
        return P
    P = np.zeros((fv.shape[1], cv.shape[1]))
    for p in range(fv.shape[1]):
        x = fv[:, p]
        par = _locate_parent(x, cv, ce)
        t = par[0]
        p0, p1, p2 = (cv[:, int(ce[k, t])] for k in range(3))
        lam, *_ = np.linalg.lstsq(np.column_stack([p1 - p0, p2 - p0]), x - p0, rcond=None)
        lams = [1 - lam[0] - lam[1], lam[0], lam[1]]
        for k in range(3):
            P[p, int(ce[k, t])] += lams[k]
    return P


def check_refinement(ctx, meshname, quick):
    coarse = meshes.get(meshname, ctx.seed)
    cg = SP.make_grid(coarse)
    fines = {"refine": cg.refine()}
    if not quick:
        fines["refine2"] = fines["refine"].refine()
    fines["barycentric"] = cg.barycentric_refinement
    ladder = [(4, 4), (8, 6), (12, 10)] if quick else [(4, 4), (8, 6), (12, 10), (16, 12)]
    closed = R.is_closed_manifold(coarse[1])
    for fname, fg in fines.items():
        fine = SP.mesh_of_grid(fg)
        P0 = prolongation(coarse, fine, "DP0")
        P1 = prolongation(coarse, fine, "P1")
        for label, family, name, dkind, tkind in [("V", "laplace", "single_layer", "DP0", "DP0"), ("K", "laplace", "double_layer", "P1", "DP0"),
                                                  ("W", "laplace", "hypersingular", "P1", "P1")]:
            if dkind == "P1" and not closed:
                spec = {"kind": "P1", "inc": True}
            else:
                spec = {"kind": dkind}
            tspec = {"kind": tkind, "inc": True} if tkind == "P1" else {"kind": tkind}
            errs = []
            for (r, s) in ladder:
                par = ops.params(r, s)
                Ac = ops.dense(ops.boundary(family, name, SP.make_space(cg, dict(spec)), SP.make_space(cg, dict(tspec)), SP.make_space(cg, dict(tspec)), par=par))
                Af = ops.dense(ops.boundary(family, name, SP.make_space(fg, dict(spec)), SP.make_space(fg, dict(tspec)), SP.make_space(fg, dict(tspec)), par=par))
                Pd = P1 if dkind == "P1" else P0
                Pt = P1 if tkind == "P1" else P0
                diff = Pt.T @ Af @ Pd - Ac
                errs.append(float(np.max(np.abs(diff)) / np.max(np.abs(Ac))))
                ctx.case((meshname, fname, label, r, s), sub="refinement")
            case = {"sub": "refinement", "mesh": meshname, "fine": fname, "operator": label, "errors": errs, "ladder": [list(x) for x in ladder]}
            sig = "refinement/%s/%s" % (fname, label)
            ctx.observe("refinement-top-of-ladder", errs[-1], 1e-5)
            if errs[-1] > 1e-5:
                ctx.violation(sig + "/top", case, "P'A_fine P - A_coarse is %.2e at orders %s" % (errs[-1], ladder[-1]))
            if errs[0] > 5e-2:
                ctx.violation(sig + "/gross", case, "P'A_fine P - A_coarse is %.2e already at orders (4,4)" % errs[0])
            if errs[0] > 1e-9 and errs[-1] > 0.5 * errs[0]:
                ctx.violation(sig + "/ladder", case, "discrepancy does not vanish along the order ladder: %s" % ["%.1e" % x for x in errs])
            if len(ctx.samples) < 5:
                ctx.samples.append(case)


def run(ctx):
    quick = ctx.tier == "quick"
    names = ["edge2", "fan5", "tet", "cube12"] if quick else ["edge2", "bow2", "fan5", "screen2x2", "tet", "octa", "cube12", "torus18"]
    for name in names:
        check_congruence(ctx, name, meshes.get(name, ctx.seed), quick)
    for name in (["tet", "screen2x2"] if quick else ["tet", "octa", "screen2x2"]):
        check_refinement(ctx, name, quick)
    ctx.require(set(ctx.cov.get("operators", ())) == {o[0] for o in OPERATORS}, "every assembler function exercised")
    ctx.assumptions += ["A_D assembled on the full-grid DP0/DP1 space or on the localised space of the full-grid RWG/SNC space",
                        "T = space.map_to_full_grid (coefficient map to the element-wise basis)",
                        "prolongation built from geometry (point location of fine centroids / nodes in coarse elements)"]
    return ctx.finish(rule="mesh x operator (one real and one complex kernel per regular/singular assembler function and both sparse kernels) x "
                      "independent test and trial space variants of the right local basis (whole grid, segment, complement, alternating elements; "
                      "P1/RWG/SNC option combinations) x order pair; plus refinement ladders; distinct = distinct tuples")


def replay(ctx, case):
    if case["sub"] == "refinement":
        check_refinement(ctx, case["mesh"], True)
    else:
        check_congruence(ctx, case["mesh"], meshes.get(case["mesh"], ctx.seed), False)
