"""C18 - results depend only on explicit arguments, not on process history.

E2: explicit-state search over histories of API calls.  A state is the history reaching it; every transition
replays the history on fresh objects after reset() and executes one more real API call.  The canonical form is
the reference model's state (globals, parameter object values, per slot construction facts, predicted cache
contents); the oracle is a table of what a fresh interpreter computes for (kind, parameter values).
"""

import os
import sys

import numpy as np

from bex import core
from bex import ops
from bex import spaces as SP
from bex.models import meshes

LEVEL = "model_checking"
TOL = 1e-11

DEFAULT_Q = (4, 4)
QS = [(4, 4), (1, 3), (6, 5)]
P_VALUES = [(2, 3), (5, 2)]
FMM_ORDERS = [5, 6]
ALL_Q = QS + P_VALUES

KINDS_QUICK = ["V-dense", "V-fmm", "Vpot-dense", "Vpot-fmm", "I"]
KINDS_FULL = ["V-dense", "V-fmm", "W-fmm", "Hk-fmm", "Vpot-dense", "Vpot-fmm", "I", "blocked"]
POINTS = np.array([[1.9, 0.3, 0.4], [0.2, -1.7, 0.6], [0.5, 0.4, 2.2]]).T


class World:
    """The real library objects of one history."""

    def __init__(self, seed):
        import bempp_cl.api as bem

        self.bem = bem
        self.seed = seed
        self.reset()

    def reset(self):
        from bempp_cl.api.utils.parameters import DefaultParameters

        bem = self.bem
        fresh = DefaultParameters()
        g = bem.GLOBAL_PARAMETERS
        g.quadrature.regular, g.quadrature.singular = fresh.quadrature.regular, fresh.quadrature.singular
        for name in vars(fresh.fmm):
            setattr(g.fmm, name, getattr(fresh.fmm, name))
        g.assembly.always_promote_to_double = fresh.assembly.always_promote_to_double
        bem.clear_fmm_cache()
        self.P = ops.params(*P_VALUES[0])
        self.slots = {}
        self._mesh = meshes.get("tet", self.seed)
        self.new_grid()

    def new_grid(self):
        self.grid = SP.make_grid(self._mesh)
        self.new_spaces()

    def new_spaces(self):
        self.p0 = SP.make_space(self.grid, {"kind": "DP0"})
        self.p1 = SP.make_space(self.grid, {"kind": "P1"})

    # -- construction ------------------------------------------------------
    def create(self, kind, par):
        bem = self.bem
        p0, p1 = self.p0, self.p1
        if kind == "V-dense":
            return ops.boundary("laplace", "single_layer", p0, p0, p0, par=par, assembler="dense")
        if kind == "V-fmm":
            return ops.boundary("laplace", "single_layer", p0, p0, p0, par=par, assembler="fmm")
        if kind == "W-fmm":
            return ops.boundary("laplace", "hypersingular", p1, p1, p1, par=par, assembler="fmm")
        if kind == "Hk-fmm":
            return ops.boundary("helmholtz", "double_layer", p1, p1, p0, k=1.1 + 0.2j, par=par, assembler="fmm")
        if kind == "I":
            return ops.boundary("sparse", "identity", p1, p1, p1, par=par)
        if kind == "Vpot-dense":
            return ops.potential("laplace", "single_layer", p1, POINTS, par=par, assembler="dense")
        if kind == "Vpot-fmm":
            return ops.potential("laplace", "single_layer", p1, POINTS, par=par, assembler="fmm")
        if kind == "blocked":
            blk = bem.BlockedOperator(2, 2)
            blk[0, 0] = ops.boundary("laplace", "single_layer", p0, p0, p0, par=par, assembler="dense")
            blk[1, 1] = ops.boundary("sparse", "identity", p1, p1, p1, par=par)
            blk[0, 1] = ops.boundary("laplace", "double_layer", p1, p0, p0, par=par, assembler="dense")
            return blk
        raise ValueError(kind)

    def observe(self, kind, obj):
        bem = self.bem
        if kind.startswith("Vpot"):
            sp = obj.space  # the space the operator was created with (the world's current spaces may have been replaced since)
            n = sp.global_dof_count
            return np.array([np.asarray(obj.evaluate(bem.GridFunction(sp, coefficients=np.eye(n)[j]))).reshape(-1) for j in range(n)]), None
        w = obj.weak_form()
        w2 = obj.weak_form()
        ident = w is w2
        n = w.shape[1]
        if kind.endswith("fmm"):
            M = np.array([np.asarray(w @ np.eye(n)[j]).reshape(-1) for j in range(n)]).T
        else:
            M = np.asarray(w.to_dense())
        return M, ident


def values_of(par_ref, world_q, world_P):
    return world_q if par_ref == "none" else world_P


class Model:
    """Reference model of the property relevant state (no library objects)."""

    def __init__(self):
        self.q = DEFAULT_Q
        self.fmm = FMM_ORDERS[0]
        self.P = P_VALUES[0]
        self.gen = 0
        self.gridgen = 0
        self.slots = {}
        self.cache = set()
        self.mass = None

    def canon(self):
        return (self.q, self.fmm, self.P, self.gen, self.gridgen, tuple(sorted(self.slots.items())), tuple(sorted(self.cache)), self.mass)


def run_history(world, history, check_last, fresh, ctx_out):
    """Replay `history` on a reset world; return the canonical state; check the observation of the last event."""
    world.reset()
    bem = world.bem
    m = Model()
    last = len(history) - 1
    for idx, ev in enumerate(history):
        op = ev[0]
        checking = check_last and idx == last
        try:
            if op in ("create", "make"):
                _, slot, kind, pref = ev
                par = None if pref == "none" else world.P
                obj = world.create(kind, par)
                cvals = values_of(pref, m.q, m.P)
                world.slots[slot] = (kind, obj, pref)
                m.slots[slot] = (kind, pref, cvals, None, m.gen, m.gridgen)
                if kind == "Vpot-fmm":
                    m.cache.add(("pot", m.gridgen, m.fmm, m.q[0]))
                if op == "make":
                    _observe(world, m, slot, checking, fresh, ctx_out, history)
            elif op == "observe":
                _observe(world, m, ev[1], checking, fresh, ctx_out, history)
            elif op == "strong":
                kind, obj, pref = world.slots[ev[1]]
                s = obj.strong_form()
                S = np.asarray(s.to_dense())
                kk, pp, cvals, ovals, g_, gg_ = m.slots[ev[1]]
                ovals = ovals or values_of(pp, m.q, m.P)
                m.slots[ev[1]] = (kk, pp, cvals, ovals, g_, gg_)
                if checking:
                    ok = False
                    for vals in {cvals, ovals}:
                        W = fresh[("V-dense", vals)]
                        Mass = fresh[("mass-dp0", DEFAULT_Q)]
                        if _close(S, np.linalg.solve(Mass, W)):
                            ok = True
                    if not ok:
                        ctx_out.append(("strong-form/%s" % kind, history, "strong form differs from inverse mass times the fresh weak form"))
            elif op == "setq":
                bem.GLOBAL_PARAMETERS.quadrature.regular, bem.GLOBAL_PARAMETERS.quadrature.singular = ev[1]
                m.q = tuple(ev[1])
            elif op == "setfmm":
                bem.GLOBAL_PARAMETERS.fmm.expansion_order = ev[1]
                m.fmm = ev[1]
            elif op == "mutateP":
                nv = P_VALUES[1] if m.P == P_VALUES[0] else P_VALUES[0]
                world.P.quadrature.regular, world.P.quadrature.singular = nv
                m.P = nv
            elif op == "clear":
                bem.clear_fmm_cache()
                m.cache = set()
            elif op == "newspace":
                world.new_spaces()
                m.gen += 1
            elif op == "newgrid":
                world.new_grid()
                m.gen += 1
                m.gridgen += 1
            elif op == "mass":
                mm = world.p1.mass_matrix()
                mm2 = world.p1.mass_matrix()
                M = np.asarray(mm.to_dense())
                if m.mass is None or m.mass[0] != m.gen:
                    m.mass = (m.gen, m.q[0] if m.q[0] < 2 else 2)
                if checking:
                    want = fresh[("I", (1, 3) if m.mass[1] < 2 else DEFAULT_Q)]
                    if mm is not mm2:
                        ctx_out.append(("mass-matrix/identity", history, "mass_matrix() returned a different object on the second call"))
                    if not _close(M, want):
                        ctx_out.append(("mass-matrix/value", history, "cached mass matrix differs from what a fresh process computes with the order in force at its first use"))
            else:
                raise ValueError(ev)
        except Exception as exc:  # noqa: BLE001
            if checking:
                ctx_out.append(("exception:%s/%s" % (type(exc).__name__, _evsig(ev, m)), history, "%s raised %r" % (ev, exc)))
            return None
    return m.canon()


def _evsig(ev, m):
    if ev[0] in ("create", "make"):
        return "%s/%s/params=%s" % (ev[0], ev[2], "explicit" if ev[3] != "none" else "global")
    if ev[0] in ("observe", "strong") and ev[1] in m.slots:
        s = m.slots[ev[1]]
        return "%s/%s/params=%s" % (ev[0], s[0], "explicit" if s[1] != "none" else "global")
    return ev[0]


def _close(a, b):
    a, b = np.asarray(a), np.asarray(b)
    if a.shape != b.shape:
        return False
    sc = float(np.max(np.abs(b))) or 1.0
    return bool(np.max(np.abs(a - b)) <= TOL * sc)


def _observe(world, m, slot, checking, fresh, ctx_out, history):
    kind, obj, pref = world.slots[slot]
    kk, pp, cvals, ovals, g_, gg_ = m.slots[slot]
    M, ident = world.observe(kind, obj)
    now = values_of(pp, m.q, m.P)
    first = ovals is None
    if first:
        ovals = now
        m.slots[slot] = (kk, pp, cvals, ovals, g_, gg_)
        if kind in ("V-fmm", "W-fmm", "Hk-fmm"):
            m.cache.add((kind, gg_, m.fmm, ovals[0]))
    if checking:
        sig = "%s/params=%s" % (kind, "explicit" if pp != "none" else "global")
        if ident is False:
            ctx_out.append(("weak-form-identity/" + sig, history, "weak_form() returned a different object on the second call"))
        cands = {cvals, ovals}
        if not any(_close(M, fresh[(kind, v)]) for v in cands):
            # classify: does it match a table entry for other parameter values?
            other = [v for v in ALL_Q if v not in cands and _close(M, fresh[(kind, v)])]
            detail = ("matches the fresh result for parameter values %s instead of %s" % (other[0], sorted(cands))) if other else \
                ("matches no fresh result (expected parameter values %s)" % sorted(cands))
            ctx_out.append(("observation/" + sig, history, "%s on slot %s: %s" % (kind, slot, detail)))


# ---------------------------------------------------------------------------
# worker side
# ---------------------------------------------------------------------------
_W = {}


def _init(seed, kinds):
    from bex.checks import c17

    c17.install_stub()
    if "world" not in _W:
        work = os.environ.get("BEX_WORK", "/tmp")
        d = os.path.join(work, "c18-%d" % os.getpid())
        os.makedirs(d, exist_ok=True)
        os.chdir(d)
        import numba

        numba.set_num_threads(1)
        _W["world"] = World(seed)
        _W["fresh"] = fresh_table(_W["world"], kinds)
    return _W["world"], _W["fresh"]


def fresh_table(world, kinds, reverse=False):
    """What a pristine interpreter computes for (kind, parameter values): set globals, construct with parameters=None."""
    bem = world.bem
    table = {}
    keys = [(k, v) for k in kinds for v in ALL_Q]
    if reverse:
        keys = keys[::-1]
    for kind, vals in keys:
        world.reset()
        bem.GLOBAL_PARAMETERS.quadrature.regular, bem.GLOBAL_PARAMETERS.quadrature.singular = vals
        obj = world.create(kind, None)
        M, _ = world.observe(kind, obj)
        table[(kind, vals)] = M
    world.reset()
    table[("mass-dp0", DEFAULT_Q)] = np.asarray(ops.boundary("sparse", "identity", world.p0, world.p0, world.p0).weak_form().to_dense())
    world.reset()
    return table


def expand(task):
    """Expand one frontier history: try every enabled event; return [(event, canon or None, violations)]."""
    seed, kinds, history, events = task
    world, fresh = _init(seed, kinds)
    out = []
    base = run_history(world, history, False, fresh, [])
    for ev in events:
        if not enabled(ev, history, base):
            continue
        viol = []
        canon = run_history(world, history + (ev,), True, fresh, viol)
        out.append((ev, canon, viol))
    return out


def _fresh_proc(q, seed, kinds):
    import traceback

    os.environ["NUMBA_NUM_THREADS"] = "1"
    try:
        q.put(fresh_task((seed, kinds, True)))
    except Exception:  # noqa: BLE001
        q.put(traceback.format_exc())


def fresh_task(task):
    seed, kinds, reverse = task
    from bex.checks import c17

    c17.install_stub()
    d = os.path.join(os.environ.get("BEX_WORK", "/tmp"), "c18-fresh-%d" % os.getpid())
    os.makedirs(d, exist_ok=True)
    os.chdir(d)
    w = World(seed)
    t = fresh_table(w, kinds, reverse)
    return {repr(k): v for k, v in t.items()}


def enabled(ev, history, canon):
    if canon is None:
        return False
    q, fmm, P, gen, gridgen, slots, cache, mass = canon
    slots = dict(slots)
    if ev[0] in ("observe", "strong"):
        if ev[1] not in slots:
            return False
        if ev[0] == "strong" and slots[ev[1]][0] != "V-dense":
            return False
    if ev[0] == "setq" and tuple(ev[1]) == q:
        return False
    if ev[0] == "setfmm" and ev[1] == fmm:
        return False
    if ev[0] == "clear" and not cache:
        return False
    return True


def alphabet(kinds, quick):
    ev = []
    for slot in ("a", "b"):
        for kind in kinds:
            for pref in ("none", "P"):
                ev.append(("make", slot, kind, pref))
                if slot == "a" or not quick:
                    ev.append(("create", slot, kind, pref))
    ev += [("observe", "a"), ("observe", "b"), ("strong", "a"), ("strong", "b")]
    ev += [("setq", q) for q in QS]
    ev += [("setfmm", o) for o in FMM_ORDERS]
    ev += [("mutateP",), ("clear",), ("newspace",), ("mass",)]
    if not quick:
        ev.append(("newgrid",))
    return ev


# ---------------------------------------------------------------------------------------------------------------------
# Layer 2: every public operator factory honours the explicit parameter object and the precision argument
# ---------------------------------------------------------------------------------------------------------------------
SWEEP_P = (2, 3)
SWEEP_OTHER = (6, 5)
HELM_KS = [1.1, 0.9 + 0.3j, 0.7j]   # real, complex, purely imaginary (the factories branch on the wavenumber class)


def factories(quick):
    """(label, group, family, name, wavenumber) for every public boundary / potential / far-field factory."""
    out = []
    for name in ops.SCALAR_NAMES:
        out.append(("boundary", "laplace", name, None))
        for k in HELM_KS:
            out.append(("boundary", "helmholtz", name, k))
        out.append(("boundary", "modified_helmholtz", name, 0.8))
    for name in ("electric_field", "magnetic_field"):
        for k in HELM_KS[:2]:
            out.append(("boundary", "maxwell", name, k))
            out.append(("potential", "maxwell", name, k))
            out.append(("far_field", "maxwell", name, k))
    for name in ("identity", "laplace_beltrami"):
        out.append(("boundary", "sparse", name, None))
    for name in ("single_layer", "double_layer"):
        out.append(("potential", "laplace", name, None))
        out.append(("potential", "modified_helmholtz", name, 0.8))
        for k in HELM_KS:
            out.append(("potential", "helmholtz", name, k))
            out.append(("far_field", "helmholtz", name, k))
    return out


def plumbing_sweep(ctx, quick):
    import bempp_cl.api as bem

    world = World(ctx.seed)
    mesh = meshes.get("tet", ctx.seed)
    grid = SP.make_grid(mesh)
    p1 = SP.make_space(grid, {"kind": "P1"})
    rwg = SP.make_space(grid, {"kind": "RWG"})
    snc = SP.make_space(grid, {"kind": "SNC"})
    dirs = POINTS / np.linalg.norm(POINTS, axis=0)
    g = bem.GLOBAL_PARAMETERS

    def setg(q):
        g.quadrature.regular, g.quadrature.singular = q

    def build(group, family, name, k, par, precision=None, assembler=None):
        if group == "boundary":
            if family == "maxwell":
                return ops.boundary(family, name, rwg, rwg, snc, k=k, par=par, precision=precision, assembler=assembler or "default_nonlocal")
            return ops.boundary(family, name, p1, p1, p1, k=k, par=par, precision=precision, assembler=assembler or "default_nonlocal")
        sp = rwg if family == "maxwell" else p1
        return ops.potential(family, name, sp, dirs if group == "far_field" else POINTS, k=k, par=par, precision=precision, far_field=group == "far_field")

    def value(group, family, op):
        if group == "boundary":
            return np.asarray(op.weak_form().to_dense())
        sp = rwg if family == "maxwell" else p1
        n = sp.global_dof_count
        return np.array([np.asarray(op.evaluate(bem.GridFunction(sp, coefficients=np.eye(n)[j]))) for j in range(n)])

    for group, family, name, k in factories(quick):
        case = {"layer": "factory-sweep", "group": group, "family": family, "operator": name, "k": k}
        sig = "explicit-parameters/%s/%s/%s/%s" % (group, family, name, "no-k" if k is None else ("real-k" if np.imag(k) == 0 else ("imaginary-k" if np.real(k) == 0 else "complex-k")))
        try:
            world.reset()
            res = {}
            setg(DEFAULT_Q)
            res["default"] = value(group, family, build(group, family, name, k, None))
            res["explicit"] = value(group, family, build(group, family, name, k, ops.params(*SWEEP_P)))
            setg(SWEEP_P)
            res["global"] = value(group, family, build(group, family, name, k, None))
            setg(SWEEP_OTHER)
            res["explicit-under-other-global"] = value(group, family, build(group, family, name, k, ops.params(*SWEEP_P)))
            # construction under one global setting, assembly after the global setting changed: explicit object still decides
            setg(DEFAULT_Q)
            op = build(group, family, name, k, ops.params(*SWEEP_P))
            setg(SWEEP_OTHER)
            res["explicit-global-changed-before-assembly"] = value(group, family, op)
            setg(DEFAULT_Q)
            res["single"] = value(group, family, build(group, family, name, k, ops.params(*SWEEP_P), precision="single"))
            res["double"] = value(group, family, build(group, family, name, k, ops.params(*SWEEP_P), precision="double"))
        except Exception as exc:  # noqa: BLE001
            setg(DEFAULT_Q)
            ctx.violation(sig + "/exception:" + type(exc).__name__, case, repr(exc))
            continue
        finally:
            setg(DEFAULT_Q)
        ctx.case(("factory", group, family, name, repr(k)), sub="factory-sweep", sample=case if len(ctx.samples) < 6 and k == 0.7j else None)
        ctx.transitions += 7
        ref = res["explicit"]
        scale = float(np.max(np.abs(ref))) or 1.0
        for key in ("global", "explicit-under-other-global", "explicit-global-changed-before-assembly", "double"):
            err = float(np.max(np.abs(res[key] - ref))) / scale
            ctx.observe("explicit-vs-" + key, err, 1e-12)
            if res[key].shape != ref.shape or err > 1e-12:
                ctx.violation(sig + "/" + key, dict(case, compared=key), "explicit parameter object %s gives a result differing by %.2e from '%s'" % (SWEEP_P, err, key))
        err = float(np.max(np.abs(res["single"] - ref))) / scale
        ctx.observe("single-vs-double", err, 2e-4)
        if err > 2e-4:
            ctx.violation(sig + "/single-precision", case, "precision='single' differs from double by %.2e" % err)
        if family != "sparse":
            d = float(np.max(np.abs(res["default"] - ref))) / scale
            if d > 1e-9:
                ctx.cover("factories_where_orders_are_observable", (group, family, name, repr(k)))
            else:
                ctx.cover("factories_where_orders_are_not_observable", (group, family, name, repr(k)))
    n_obs = len(ctx.cov.get("factories_where_orders_are_observable", ()))
    n_all = len([f for f in factories(quick) if f[1] != "sparse"])
    ctx.require(n_obs == n_all, "quadrature orders %s vs %s are observable for every non-sparse factory (%d of %d)" % (SWEEP_P, DEFAULT_Q, n_obs, n_all))


# ---------------------------------------------------------------------------------------------------------------------
# Layer 3: weak form, strong form and application of one operator object in any order
# ---------------------------------------------------------------------------------------------------------------------
def form_histories(ctx, quick):
    """E2 over call sequences {weak_form, strong_form, op * f} on one operator object (single, complex, blocked, generalized blocked):
    every observation must equal what a fresh object of the same construction gives for that call alone (the lazily cached forms must
    not overwrite one another)."""
    import itertools

    import scipy.linalg as sla

    import bempp_cl.api as bem

    mesh = meshes.get("tet", ctx.seed)
    grid = SP.make_grid(mesh)
    p0 = SP.make_space(grid, {"kind": "DP0"})
    p1 = SP.make_space(grid, {"kind": "P1"})
    B = ops.boundary
    par = ops.params(3, 4)
    M0 = np.asarray(B("sparse", "identity", p0, p0, p0).weak_form().to_dense())
    M1 = np.asarray(B("sparse", "identity", p1, p1, p1).weak_form().to_dense())

    def blocked():
        blk = bem.BlockedOperator(2, 2)
        blk[0, 0] = B("laplace", "single_layer", p0, p0, p0, par=par)
        blk[0, 1] = B("laplace", "double_layer", p1, p0, p0, par=par)
        blk[1, 0] = B("laplace", "adjoint_double_layer", p0, p1, p1, par=par)
        blk[1, 1] = B("sparse", "identity", p1, p1, p1)
        return blk

    makers = {
        "single": (lambda: B("laplace", "single_layer", p0, p0, p0, par=par), [p0], M0),
        "complex": (lambda: B("helmholtz", "single_layer", p0, p0, p0, k=1.1 + 0.2j, par=par), [p0], M0),
        "blocked": (blocked, [p0, p1], sla.block_diag(M0, M1)),
        "generalized": (lambda: bem.GeneralizedBlockedOperator([[B("laplace", "single_layer", p0, p0, p0, par=par), B("laplace", "double_layer", p1, p0, p0, par=par)],
                                                                 [B("laplace", "adjoint_double_layer", p0, p1, p1, par=par), B("sparse", "identity", p1, p1, p1)]]),
                        [p0, p1], sla.block_diag(M0, M1)),
    }
    events = ["weak", "strong", "apply"]
    depth = 3 if quick else 4
    for name, (make, dspaces, mass) in makers.items():
        W = np.asarray(make().weak_form().to_dense())
        S = np.linalg.solve(mass, W)
        n = W.shape[1]
        c = np.cos(np.arange(n) * 0.7 + 0.2)
        want = {"weak": W, "strong": S, "apply": S @ c}
        scale = {k: float(np.max(np.abs(v))) for k, v in want.items()}
        for hist in itertools.chain.from_iterable(itertools.product(events, repeat=m) for m in range(1, depth + 1)):
            op = make()
            case = {"layer": "form-history", "operator": name, "history": list(hist)}
            got = None
            try:
                for ev in hist:
                    if ev == "weak":
                        w1 = op.weak_form()
                        if op.weak_form() is not w1:
                            ctx.violation("form-history/%s/weak-form-identity" % name, case, "repeated weak_form() returned a different object")
                        got = np.asarray(w1.to_dense())
                    elif ev == "strong":
                        got = np.asarray(op.strong_form().to_dense())
                    else:
                        fs, off = [], 0
                        for sp in dspaces:
                            fs.append(bem.GridFunction(sp, coefficients=c[off: off + sp.global_dof_count]))
                            off += sp.global_dof_count
                        res = op * (fs if len(fs) > 1 else fs[0])
                        got = np.concatenate([np.asarray(r_.coefficients).reshape(-1) for r_ in (res if isinstance(res, list) else [res])])
            except Exception as exc:  # noqa: BLE001
                ctx.violation("form-history/%s/exception:%s" % (name, type(exc).__name__), case, repr(exc))
                continue
            ctx.transitions += len(hist)
            ctx.case(("form-history", name, hist), sub="form-history", sample=case if len(ctx.samples) < 8 and len(hist) == 3 and name == "blocked" else None)
            ctx.check_close("form-history/%s/%s" % (name, hist[-1]), case, got, want[hist[-1]], 1e-11, "form-history", scale=scale[hist[-1]])


def run(ctx):
    quick = ctx.tier == "quick"
    if not ctx.only or "forms" in ctx.only:
        form_histories(ctx, quick)
        if ctx.only and not ({"bfs", "sweep"} & set(ctx.only)):
            return ctx.finish(rule="form histories only")
    if not (ctx.only and "bfs" in ctx.only and "sweep" not in ctx.only):
        plumbing_sweep(ctx, quick)
        if ctx.only and "bfs" not in ctx.only:
            return ctx.finish(rule="factory sweep only")
    kinds = KINDS_QUICK if quick else KINDS_FULL
    # depth 3 in both tiers: the thorough tier widens the alphabet (8 operator kinds instead of 5, create on both slots, new grid), which
    # already multiplies the transitions by ~6; depth 4 on that alphabet was measured not to finish within 3 hours
    depth = 3
    events = alphabet(kinds, quick)
    # the oracle: what a fresh interpreter computes.  This process is one (nothing has been assembled yet); a second fresh
    # interpreter computes the same table in the opposite order concurrently; the two must agree.
    import multiprocessing as mp

    jobs = 1  # spawned workers that JIT-compile on their own were measured to be slower than one process
    mpc = mp.get_context("spawn")
    q = mpc.Queue()
    proc = mpc.Process(target=_fresh_proc, args=(q, ctx.seed, kinds), daemon=True)
    proc.start()
    world, fresh = _init(ctx.seed, kinds)
    t1 = {repr(k): v for k, v in fresh.items()}
    try:
        t2 = q.get(timeout=1200)
    finally:
        proc.join(timeout=10)
    if isinstance(t2, str):
        raise core.CheckBroken("second fresh interpreter failed: " + t2)
    for k in t1:
        if not (t1[k].shape == t2[k].shape and np.max(np.abs(t1[k] - t2[k])) <= 1e-13 * np.max(np.abs(t1[k]))):
            raise core.CheckBroken("fresh-process table entry %s depends on the order in which the table is computed" % k)
        ctx.observe("fresh-table-order-dependence", float(np.max(np.abs(t1[k] - t2[k])) / np.max(np.abs(t1[k]))), 1e-13)
    distinct_fresh = len({(k.split(",")[0], np.round(v / np.max(np.abs(v)), 9).tobytes()) for k, v in t1.items()})
    ctx.cov["fresh_table_entries"] = len(t1)
    ctx.cov["fresh_table_distinct_values"] = distinct_fresh
    ctx.require(distinct_fresh > len(kinds) + 2, "different parameter values give different matrices (otherwise 'honoured' is unobservable)")
    initial = [(), (("setq", (1, 3)),)]
    seen = set()
    frontier = []
    for h in initial:
        frontier.append(h)
    level = 0
    sigs_seen = {}
    while frontier and level < depth:
        tasks = [(ctx.seed, kinds, h, events) for h in frontier]
        results = core.pool_map("bex.checks.c18", "expand", tasks, jobs)
        nxt = []
        for h, res in zip(frontier, results):
            for ev, canon, viol in res:
                ctx.transitions += 1
                ctx.traces_validated += 1
                for sig, hist, msg in viol:
                    case = {"history": [list(x) for x in hist]}
                    # keep the shortest history per signature (BFS order => first is shortest)
                    if sig not in sigs_seen:
                        sigs_seen[sig] = 0
                    sigs_seen[sig] += 1
                    ctx.violation(sig, case, msg)
                if canon is None:
                    continue
                key = (len(h) and h[0] == ("setq", (1, 3)) and level == 0, canon)
                if canon not in seen:
                    seen.add(canon)
                    ctx.states += 1
                    ctx.case(canon, sub="state", sample={"history": [list(x) for x in h + (ev,)]} if (ctx.states % 997 == 1 and len(ctx.samples) < 5) else None)
                    nxt.append(h + (ev,))
                    if canon[6]:
                        ctx.cover("states_with_fmm_cache_entries", None)
                    sl = dict(canon[5])
                    for s in sl.values():
                        if s[1] == "P" and s[2] != canon[0]:
                            ctx.cover("states_explicit_params_differ_from_global", None)
        frontier = nxt
        level += 1
        ctx.cov["depth_completed"] = level
    ctx.cov["alphabet_size"] = len(events)
    ctx.require(ctx.cov.get("states_with_fmm_cache_entries", 0) > 0, "histories with FMM cache entries explored")
    ctx.require(ctx.cov.get("states_explicit_params_differ_from_global", 0) > 0, "histories where explicit parameters differ from the global ones")
    ctx.assumptions += ["'fresh process' oracle: table computed in two fresh interpreters in opposite orders (must agree to 1e-13; the JIT picks "
                        "different specialisations depending on call order, so bitwise equality across processes does not hold even on a fresh tree)",
                        "lenient reading of 'parameter object given at construction': values held at construction or at first assembly",
                        "exafmm is the exact-summation stub"]
    return ctx.finish(rule="BFS over histories of {create, make(=create+assemble), observe, strong_form, set global quadrature, set global fmm order, "
                      "mutate explicit parameter object, clear_fmm_cache, new spaces, mass_matrix} from the pristine state and from a state with "
                      "non-default global quadrature, depth %d, de-duplicated by the reference model's state; every transition replays the history on "
                      "fresh real objects and compares the last observation with the fresh-interpreter table; distinct = canonical states" % depth,
                      extra={"kinds": kinds})


def replay(ctx, case):
    kinds = KINDS_FULL
    world, fresh = _init(ctx.seed, kinds)
    hist = tuple(tuple(tuple(y) if isinstance(y, list) else y for y in x) for x in case["history"])
    viol = []
    run_history(world, hist, True, fresh, viol)
    for sig, h, msg in viol:
        ctx.violation(sig, case, msg)
