"""C15 - linear solvers return solutions of the stated system in the right spaces (E1 sweep)."""

import itertools

import numpy as np

from bex import ops
from bex import spaces as SP
from bex.models import meshes

LEVEL = "exploration"


def build_operators(bem, grid, quick):
    p0 = SP.make_space(grid, {"kind": "DP0"})
    p1 = SP.make_space(grid, {"kind": "P1", "inc": True})
    B = ops.boundary
    V = B("laplace", "single_layer", p0, p0, p0)
    I1 = B("sparse", "identity", p1, p1, p1)
    out = [("V-dp0", V, True, False), ("I-p1", I1, True, False),
           ("halfI+K-p1", 0.5 * I1 + B("laplace", "double_layer", p1, p1, p1), False, False),
           ("Vk-dp0", B("helmholtz", "single_layer", p0, p0, p0, k=1.1), False, False)]
    blk = bem.BlockedOperator(2, 2)
    blk[0, 0] = V
    blk[1, 0] = B("laplace", "adjoint_double_layer", p0, p1, p1)
    blk[1, 1] = I1
    out.append(("blocked-real", blk, False, True))
    blkc = bem.BlockedOperator(2, 2)
    blkc[0, 0] = B("helmholtz", "single_layer", p0, p0, p0, k=0.9 + 0.2j)
    blkc[0, 1] = B("helmholtz", "double_layer", p1, p0, p0, k=0.9 + 0.2j)
    blkc[1, 1] = I1
    out.append(("blocked-complex", blkc, False, True))
    if not quick:
        gen = bem.GeneralizedBlockedOperator([[V, B("laplace", "double_layer", p1, p0, p0)], [B("laplace", "adjoint_double_layer", p0, p1, p1), 2.0 * I1]])
        out.append(("generalized-blocked", gen, False, True))
    return out


def domain_spaces(A, blocked):
    return list(A.domain_spaces) if blocked else [A.domain]


def rhs_vectors(n, quick):
    vecs = [np.eye(n)[j] for j in (range(n) if not quick else range(min(n, 3)))]
    vecs.append(np.cos(np.arange(n) + 0.3) + 1j * np.sin(1.7 * np.arange(n)))
    return vecs


def rhs_snapshot(A, b, blocked):
    """Copy of the projections of the right-hand side onto the dual space(s) of A (what every solver reads)."""
    if blocked:
        return np.concatenate([np.array(bi.projections(d)).reshape(-1) for bi, d in zip(b, A.dual_to_range_spaces)])
    return np.array(b.projections(A.dual_to_range)).reshape(-1)


def to_functions(bem, A, blocked, x):
    sps = domain_spaces(A, blocked)
    out, off = [], 0
    for s in sps:
        n = s.global_dof_count
        out.append(bem.GridFunction(s, coefficients=np.array(x[off:off + n])))
        off += n
    return out if blocked else out[0]


def coefficients_of(res, blocked):
    if blocked:
        return np.concatenate([np.asarray(r.coefficients).reshape(-1) for r in res])
    return np.asarray(res.coefficients).reshape(-1)


def spaces_ok(res, A, blocked):
    sps = domain_spaces(A, blocked)
    got = list(res) if blocked else [res]
    return len(got) == len(sps) and all(g.space.is_compatible(s) and g.space.global_dof_count == s.global_dof_count for g, s in zip(got, sps))


def check_mesh(ctx, name, quick):
    import bempp_cl.api as bem
    from bempp_cl.api.linalg import lu, gmres, cg
    from bempp_cl.api.linalg.direct_solvers import compute_lu_factors

    mesh = meshes.get(name, ctx.seed)
    grid = SP.make_grid(mesh)
    for label, A, spd, blocked in build_operators(bem, grid, quick):
        W = np.asarray(A.weak_form().to_dense())
        S = np.asarray(A.strong_form().to_dense())
        n = W.shape[1]
        kw = float(np.linalg.cond(W))
        ks = float(np.linalg.cond(S))
        if kw > 1e4:
            raise RuntimeError("pool operator %s on %s is not well conditioned (%.1e)" % (label, name, kw))
        factors = compute_lu_factors(A)
        for x in rhs_vectors(n, quick):
            if np.iscomplexobj(x) and False:
                continue
            f = to_functions(bem, A, blocked, x)
            b = A * f
            case0 = {"mesh": name, "operator": label, "rhs": "unit/complex vector with first non-zero at %d" % int(np.flatnonzero(x)[0])}
            b_before = rhs_snapshot(A, b, blocked)
            nx = float(np.linalg.norm(x))
            # ---- direct -------------------------------------------------------------------
            for how in ("lu", "lu-factors"):
                case = dict(case0, solver=how)
                try:
                    res = lu(A, b) if how == "lu" else lu(A, b, lu_factor=factors)
                    got = coefficients_of(res, blocked)
                except Exception as exc:  # noqa: BLE001
                    ctx.violation("%s/exception:%s" % (how, type(exc).__name__), case, repr(exc))
                    continue
                ctx.case((name, label, how, case0["rhs"]), sub="direct")
                err = float(np.linalg.norm(got - x)) / nx
                ctx.observe("lu-error/cond", err / kw, 1e-10)
                if err > 1e-10 * kw:
                    ctx.violation("%s/solution" % how, case, "lu(A, A*f) differs from f by %.2e (cond %.1e)" % (err, kw))
                if not spaces_ok(res, A, blocked):
                    ctx.violation("%s/spaces" % how, case, "returned functions do not live in the domain space(s) of A")
                if not np.array_equal(rhs_snapshot(A, b, blocked), b_before):
                    ctx.violation("%s/rhs-modified" % how, case, "the right-hand side passed to the solver was changed by the call (the stated system is A x = b for the b given)")
                    b = A * f
            # ---- iterative -----------------------------------------------------------------
            tols = [1e-4, 1e-8, 1e-12] if not quick else [1e-4, 1e-10]
            combos = list(itertools.product(tols, (None, 5), (None, 500), (False, True), (False, True), (False, True)))
            if quick:
                combos = [c for c in combos if (c[1], c[2]) in ((None, None), (5, 500))]
            for tol, restart, maxiter, strong, rr, ric in combos:
                case = dict(case0, solver="gmres", tol=tol, restart=restart, maxiter=maxiter, strong=strong, return_residuals=rr, return_iteration_count=ric)
                try:
                    out = gmres(A, b, tol=tol, restart=restart, maxiter=maxiter, use_strong_form=strong, return_residuals=rr, return_iteration_count=ric)
                except Exception as exc:  # noqa: BLE001
                    ctx.violation("gmres/exception:%s" % type(exc).__name__, case, repr(exc))
                    continue
                # differential guard: restarted GMRES with an iteration cap is not guaranteed to converge; the library calls scipy with a
                # legacy callback (maxiter then counts inner iterations).  If scipy itself, called the same way on the dense reference matrix,
                # does not reach the tolerance, the setting is outside the property's "well-conditioned ... converges" premise.
                import scipy.sparse.linalg as _sla

                Mref = S if strong else W
                _, ref_info = _sla.gmres(Mref, Mref @ x, rtol=tol, restart=restart, maxiter=maxiter, callback=lambda r_: None)
                if ref_info != 0:
                    ctx.declined += 1
                    ctx.cover("gmres_settings_where_scipy_itself_stalls", (restart, maxiter, tol))
                    continue
                ctx.case((name, label, "gmres", case0["rhs"], tol, restart, maxiter, strong, rr, ric), sub="gmres",
                         sample=case if len(ctx.samples) < 3 and strong and rr else None)
                judge(ctx, "gmres", case, out, rr, ric, x, W, S, strong, kw, ks, tol, A, blocked, b, False)
            if spd and not blocked:
                sym_strong = float(np.max(np.abs(S - S.T))) < 1e-12 * float(np.max(np.abs(S)))
                for tol, maxiter, strong, rr, ric in itertools.product(tols, (None, 500), (False, True), (False, True), (False, True)):
                    if strong and not sym_strong:
                        ctx.declined += 1  # inverse mass times weak form is not symmetric on non-uniform meshes: cg is not applicable
                        continue
                    case = dict(case0, solver="cg", tol=tol, maxiter=maxiter, strong=strong, return_residuals=rr, return_iteration_count=ric)
                    try:
                        out = cg(A, b, tol=tol, maxiter=maxiter, use_strong_form=strong, return_residuals=rr, return_iteration_count=ric)
                    except Exception as exc:  # noqa: BLE001
                        ctx.violation("cg/exception:%s" % type(exc).__name__, case, repr(exc))
                        continue
                    ctx.case((name, label, "cg", case0["rhs"], tol, maxiter, strong, rr, ric), sub="cg")
                    judge(ctx, "cg", case, out, rr, ric, x, W, S, strong, kw, ks, tol, A, blocked, b, True)


def judge(ctx, solver, case, out, rr, ric, x, W, S, strong, kw, ks, tol, A, blocked, b, is_cg):
    expected_len = 2 + int(rr) + int(ric)
    if not isinstance(out, tuple) or len(out) != expected_len:
        ctx.violation("%s/return-shape" % solver, case, "returned %r values, expected %d" % (len(out) if isinstance(out, tuple) else type(out), expected_len))
        return
    res, info = out[0], out[1]
    residuals = out[2] if rr else None
    count = out[-1] if ric else None
    got = coefficients_of(res, blocked)
    nx = float(np.linalg.norm(x))
    Mx = S if strong else W
    kappa = ks if strong else kw
    rhs = Mx @ x
    if info != 0:
        ctx.violation("%s/info" % solver, case, "info = %r" % (info,))
    true_res = float(np.linalg.norm(rhs - Mx @ got) / np.linalg.norm(rhs))
    ctx.observe("%s-true-residual/tol" % solver, true_res / tol, 10.0)
    if true_res > 10 * tol + 1e-13:
        ctx.violation("%s/residual" % solver, case, "true relative residual %.2e for tol %.0e" % (true_res, tol))
    err = float(np.linalg.norm(got - x)) / nx
    if err > 10 * kappa * tol + 1e-11 * kappa:
        ctx.violation("%s/solution" % solver, case, "solution error %.2e exceeds 10*cond*tol = %.2e" % (err, 10 * kappa * tol))
    if not spaces_ok(res, A, blocked):
        ctx.violation("%s/spaces" % solver, case, "returned functions do not live in the domain space(s) of A")
    if not np.allclose(rhs_snapshot(A, b, blocked), rhs, rtol=0, atol=1e-12 * float(np.linalg.norm(rhs))) and not strong:
        ctx.violation("%s/rhs-modified" % solver, case, "the right-hand side passed to the solver no longer equals A*f after the call")
    if ric and (not isinstance(count, (int, np.integer)) or count < 1):
        ctx.violation("%s/iteration-count" % solver, case, "iteration count %r" % (count,))
    if rr:
        r = np.asarray(residuals, dtype=float)
        if r.size == 0 or not np.all(np.isfinite(r)) or np.any(r < 0):
            ctx.violation("%s/residuals" % solver, case, "residual history %r" % (residuals,))
        if ric and len(r) != count:
            ctx.violation("%s/residuals-vs-count" % solver, case, "%d residuals but %d iterations" % (len(r), count))
        if is_cg and r.size:
            final = float(np.linalg.norm(rhs - Mx @ got))
            if abs(r[-1] - final) > 1e-9 * float(np.linalg.norm(rhs)) + 1e-14:
                ctx.violation("cg/last-residual", case, "last stored residual %.3e is not the residual %.3e of the returned iterate" % (r[-1], final))
        if not is_cg and r.size:
            # legacy gmres callback: relative (preconditioned) residual norms; the last one must have met the tolerance
            if r[-1] > tol * (1 + 1e-6) and info == 0:
                ctx.violation("gmres/last-residual", case, "last reported residual %.3e above tol %.0e although info == 0" % (r[-1], tol))


def run(ctx):
    quick = ctx.tier == "quick"
    for name in (["tet", "octa"] if quick else ["tet", "octa", "cube12"]):
        check_mesh(ctx, name, quick)
    ctx.assumptions += ["acceptance per DESIGN B.3: lu error <= 1e-10*cond; iterative: info == 0, true relative residual <= 10*tol, error <= 10*cond*tol",
                        "cg in strong form only where inverse-mass times weak form is symmetric"]
    return ctx.finish(rule="mesh x operator {SPD V, SPD identity, 1/2 I + K, complex Helmholtz V, blocked real/complex, generalized blocked} x right-hand sides "
                      "A*e_j (all j) and a complex combination x {lu, lu with precomputed factors, gmres, cg} x tol x restart x maxiter x use_strong_form x "
                      "return_residuals x return_iteration_count; distinct = tuples")


def replay(ctx, case):
    check_mesh(ctx, case["mesh"], False)
