"""C19 - grid and grid-function export / import round trips (E1 sweep)."""

import itertools
import os

import numpy as np

from bex import spaces as SP
from bex.models import meshes

LEVEL = "exploration"
DOMAIN_ALPHABET = [0, 1, 5, 7, 1000]


def domain_vectors(M, quick):
    if M <= 4:
        vecs = list(itertools.product(DOMAIN_ALPHABET, repeat=M))
        if quick and M == 4:
            vecs = [v for i, v in enumerate(vecs) if i % 7 == 0 or len(set(v)) == 1]
        return [np.array(v) for v in vecs]
    pats = [np.zeros(M, int), np.ones(M, int), np.full(M, 7), np.arange(M), np.arange(M)[::-1].copy(), np.arange(M) * 3 + 2, (np.arange(M) % 2) * 1000,
            np.where(np.arange(M) < M // 2, 0, 5), np.full(M, 70000), 70000 + np.arange(M) * 11, (np.arange(M) % 3) * 5, np.where(np.arange(M) == 0, 0, 1)]
    return pats if not quick else pats[:8]


def check_grid_roundtrip(ctx, name, quick):
    import bempp_cl.api as bem
    import meshio

    v, e, _ = meshes.get(name, ctx.seed)
    M = e.shape[1]
    formats = [(".msh", True), (".msh", False), (".vtu", True), (".vtu", False), (".ply", True), (".ply", False)]
    for dom in domain_vectors(M, quick):
        grid = SP.make_grid((v, e, dom))
        kind = "all-zero" if not dom.any() else ("all-equal" if len(set(dom.tolist())) == 1 else ("contiguous" if sorted(set(dom.tolist())) == list(range(len(set(dom.tolist())))) else "non-contiguous"))
        for ext, binary in formats:
            if ext != ".msh" and (M > 4 or dom.tolist() != domain_vectors(M, quick)[0].tolist()) and kind not in ("non-contiguous",):
                if not (kind == "non-contiguous"):
                    pass
            fn = os.path.join(ctx.work, "grid%s" % ext)
            case = {"sub": "grid", "mesh": name, "domains": dom.tolist(), "format": ext, "binary": binary}
            sig = "grid-roundtrip/%s/%s" % (ext.strip("."), "binary" if binary else "ascii")
            try:
                bem.export(fn, grid=grid, write_binary=binary)
                raw = meshio.read(fn)
                g2 = bem.import_grid(fn)
            except Exception as exc:  # noqa: BLE001
                ctx.violation(sig + "/exception:" + type(exc).__name__, case, repr(exc))
                continue
            ctx.case((name, tuple(dom.tolist()), ext, binary), sub="grid", sample=case if len(ctx.samples) < 2 and kind == "non-contiguous" else None)
            ctx.cover("domain_patterns", kind)
            exact_float = binary or ext == ".vtu"
            vt = 0.0 if binary else (1e-15 if ext == ".msh" else 1e-10)  # ascii precision of .vtu/.ply is meshio's choice
            tri = raw.cells_dict.get("triangle")
            okv = np.max(np.abs(raw.points - v.T)) <= vt * np.max(np.abs(v)) if raw.points.shape == v.T.shape else False
            if ext == ".ply" and not binary:
                okv = raw.points.shape == v.T.shape and np.max(np.abs(raw.points - v.T)) <= 1e-6 * np.max(np.abs(v))  # ascii ply stores ~7 digits? judged leniently
            if not okv:
                ctx.violation(sig + "/vertices(meshio)", case, "file does not contain the vertices (max diff %.3e)" % (np.max(np.abs(raw.points - v.T)) if raw.points.shape == v.T.shape else np.nan))
            if tri is None or not np.array_equal(tri, e.T):
                ctx.violation(sig + "/elements(meshio)", case, "file does not contain the connectivity")
            ok2 = g2.vertices.shape == v.shape and np.max(np.abs(g2.vertices - v)) <= (vt if ext != ".ply" or binary else 1e-6) * np.max(np.abs(v))
            if not ok2:
                ctx.violation(sig + "/vertices", case, "imported vertices differ")
            if not np.array_equal(g2.elements, e):
                ctx.violation(sig + "/elements", case, "imported elements differ")
            if ext == ".msh":
                phys = raw.cell_data_dict.get("gmsh:physical", {}).get("triangle")
                if phys is None or not np.array_equal(phys, dom):
                    ctx.violation(sig + "/domains(meshio)", case, "gmsh:physical tags in the file differ from the domain indices")
                if not np.array_equal(g2.domain_indices, dom):
                    ctx.violation(sig + "/domains=%s" % kind, case, "imported domain indices %s != %s" % (g2.domain_indices.tolist()[:6], dom.tolist()[:6]))


TRANSFORMS = [None, "real", "imag", "abs", "log_abs", "abs_squared", "callable"]


def _transform(a, mode):
    if mode is None:
        return a
    if mode == "real":
        return np.real(a)
    if mode == "imag":
        return np.imag(a)
    if mode == "abs":
        return np.sqrt(np.sum(np.abs(a) ** 2, axis=0, keepdims=True))
    if mode == "abs_squared":
        return np.sum(np.abs(a) ** 2, axis=0, keepdims=True)
    if mode == "log_abs":
        return np.log(np.sqrt(np.sum(np.abs(a) ** 2, axis=0, keepdims=True)))
    return 2.0 * np.real(a) + 1.0


def check_function_export(ctx, name, quick):
    import bempp_cl.api as bem
    import meshio

    mesh = meshes.get(name, ctx.seed)
    grid = SP.make_grid(mesh)
    cb = lambda a: 2.0 * np.real(a) + 1.0  # noqa: E731
    for kind in ["DP0", "DP1", "P1", "RWG", "SNC"]:
        sp = SP.make_space(grid, {"kind": kind, "inc": True} if kind in ("P1", "RWG", "SNC") else {"kind": kind})
        n = sp.global_dof_count
        vecs = []
        for j in (range(n) if not quick else range(min(n, 2))):
            vecs.append(("unit%d" % j, np.eye(n)[j]))
            vecs.append(("iunit%d" % j, np.eye(n)[j] * (0.5 + 1j)))
        vecs.append(("dense", 1.5 + np.cos(np.arange(n) * 0.9)))
        vecs.append(("cdense", (1.5 + np.cos(np.arange(n) * 0.9)) * (1 + 0.3j) + 0.2j))
        for (vname, c), dt, tr, binary in itertools.product(vecs, ("node", "element", None), TRANSFORMS, (True, False)):
            nonlinear = tr in ("abs", "log_abs", "abs_squared", "callable")
            if nonlinear and not vname.endswith("dense"):
                continue
            if quick and not binary and (tr not in (None, "abs") or dt == "node"):
                continue
            f = bem.GridFunction(sp, coefficients=c)
            fn = os.path.join(ctx.work, "fun.msh")
            case = {"sub": "function", "mesh": name, "space": kind, "vector": vname, "data_type": dt, "transformation": tr, "binary": binary}
            sig = "function-export/%s/%s/%s/%s" % ("vector" if kind in ("RWG", "SNC") else "scalar", "complex" if np.iscomplexobj(c) else "real", dt, tr)
            try:
                bem.export(fn, grid_function=f, data_type=dt, transformation=(cb if tr == "callable" else tr), write_binary=binary)
            except Exception as exc:  # noqa: BLE001
                ctx.violation(sig + "/exception:" + type(exc).__name__, case, repr(exc))
                continue
            try:
                raw = meshio.read(fn)
            except Exception as exc:  # noqa: BLE001
                if not binary and "np.float64(" in open(fn, errors="replace").read():
                    # meshio 5.3 + numpy 2 writes repr(np.float64) into ASCII $ElementData/$NodeData and cannot read its own file:
                    # an incompatibility of the installed third-party packages, outside bempp-cl
                    ctx.declined += 1
                    ctx.cover("meshio_ascii_repr_bug", None)
                    continue
                ctx.violation(sig + "/unreadable:" + type(exc).__name__, case, repr(exc))
                continue
            ctx.case((name, kind, vname, dt, tr, binary), sub="function", sample=case if len(ctx.samples) < 4 and tr == "abs" else None)
            node = dt == "node"
            base = f.evaluate_on_vertices() if node else f.evaluate_on_element_centers()
            want = _transform(np.asarray(base), tr).T  # (n, c)
            store = raw.point_data if node else {k: v_[0] for k, v_ in raw.cell_data.items() if not k.startswith("gmsh")}
            other = raw.cell_data if node else raw.point_data
            if [k for k in other if not k.startswith("gmsh")]:
                ctx.violation(sig + "/wrong-location", case, "data written to %s although data_type=%s" % ("cells" if node else "points", dt))
            if np.iscomplexobj(want):
                parts = {"real": np.real(want), "imag": np.imag(want)}
            else:
                parts = {"data": want}
            if set(store) != set(parts):
                ctx.violation(sig + "/fields", case, "fields %s written, expected %s" % (sorted(store), sorted(parts)))
                continue
            for key, w in parts.items():
                got = np.asarray(store[key])
                w = np.asarray(w)
                if w.ndim == 2 and w.shape[1] == 1:
                    w = w[:, 0]
                if got.shape != w.shape:
                    ctx.violation(sig + "/shape", case, "field %s has shape %s, expected %s" % (key, got.shape, w.shape))
                    continue
                # binary output stores the doubles themselves: exact where the transformation does no arithmetic; abs / log_abs / abs_squared /
                # callable are floating-point expressions whose value is fixed by the property only up to rounding
                tol = (0.0 if not nonlinear else 1e-13) if binary else 1e-13
                sc = float(np.max(np.abs(w))) or 1.0
                err = float(np.max(np.abs(got - w))) / sc
                ctx.observe("function-data", err, tol)
                if err > tol:
                    ctx.violation(sig + "/values", case, "field %s differs from the reference by %.3e" % (key, err))


def run(ctx):
    quick = ctx.tier == "quick"
    for name in (["tri1", "edge2", "tet", "cube12"] if quick else ["tri1", "edge2", "fan4", "tet", "cube12"]):
        check_grid_roundtrip(ctx, name, quick)
    for name in (["tet"] if quick else ["fan4", "tet", "cube12"]):
        check_function_export(ctx, name, quick)
    ctx.require({"all-zero", "all-equal", "non-contiguous"} <= set(ctx.cov.get("domain_patterns", ())), "all-zero, all-equal and non-contiguous domain index vectors exported")
    ctx.assumptions += ["files are read back with bempp's import_grid AND independently with meshio.read",
                        "binary output must round-trip float64 exactly; ascii .msh to 1e-15, ascii .vtu to 1e-10, ascii .ply to 1e-6 (digits written are meshio's choice)"]
    return ctx.finish(rule="grids x ALL maps elements -> {0,1,5,7,1000} for <=4 elements (structured patterns incl. > 2^16 on cube12) x {.msh,.vtu,.ply} x "
                      "binary/ascii; grid functions: 5 space kinds x real/complex unit and dense vectors x data_type {node, element, None} x 7 transformations "
                      "x binary/ascii; distinct = tuples")


def replay(ctx, case):
    if case["sub"] == "grid":
        check_grid_roundtrip(ctx, case["mesh"], False)
    else:
        check_function_export(ctx, case["mesh"], False)
