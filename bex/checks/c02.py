"""C02 - Laplace potentials reproduce Green's representation formula (E1 lattice sweep)."""

import numpy as np

from bex import ops
from bex import spaces as SP
from bex.models import meshes
from bex.models import topo_ref as R

LEVEL = "exploration"

AFFINE = [((0.0, 0.0, 0.0), 1.0), ((1.0, 0.0, 0.0), 0.0), ((0.0, 1.0, 0.0), 0.0), ((0.0, 0.0, 1.0), 0.0)]


def lattice(mesh, n):
    v, e, d = mesh
    lo, hi = v.min(axis=1), v.max(axis=1)
    c, h = (lo + hi) / 2, (hi - lo)
    axes = [np.linspace(c[k] - h[k], c[k] + h[k], n) + 0.013 * h[k] * (k + 1) for k in range(3)]
    P = np.array(np.meshgrid(*axes, indexing="ij")).reshape(3, -1)
    inner = [np.linspace(lo[k], hi[k], n + 2)[1:-1] + 0.007 * h[k] * (k + 1) for k in range(3)]
    P = np.hstack([P, np.array(np.meshgrid(*inner, indexing="ij")).reshape(3, -1)])
    dmax = float(np.max(R.geometry(v, e)["diameters"]))
    keep, inside = [], []
    for q in range(P.shape[1]):
        x = P[:, q]
        if R.distance_to_surface(x, v, e) >= dmax:
            w = R.winding_number(x, v, e)
            if abs(w - round(w)) > 1e-6:
                raise RuntimeError("winding number %r not integral" % w)
            keep.append(q)
            inside.append(int(round(w)))
    return P[:, keep], np.array(inside)


def densities(mesh, rep, a, b):
    """Return list of (space_spec, coefficient builder) pairs for u (double layer) and a.n (single layer)."""
    raise NotImplementedError


def evaluate(mesh, rep, r, pts, flip_domain=None):
    """Return matrix U[k, point] = SLP[a.n] - DLP[u] for the 4 affine basis functions."""
    import bempp_cl.api as bem

    v, e, d = mesh
    normals = R.geometry(v, e)["normals"]  # outward (mesh is outward oriented before any flip)
    lib_mesh = mesh
    swapped = ()
    if flip_domain is not None:
        lib_mesh = meshes.reverse_elements(mesh, [j for j in range(e.shape[1]) if d[j] == flip_domain])
        swapped = (flip_domain,)
    grid = SP.make_grid(lib_mesh)
    le = lib_mesh[1]
    par = ops.params(r, 4)
    doms = sorted(set(d.tolist()))
    out = np.zeros((4, pts.shape[1]))
    if rep in ("P1/DP0", "DP1/DP0"):
        pieces = [("all",)]
    else:
        pieces = [("segments", (s,)) for s in doms]
    for sel in pieces:
        uk = "P1" if rep == "P1/DP0" else "DP1"
        us = SP.make_space(grid, {"kind": uk, "sel": sel, "swapped": swapped})
        ps = SP.make_space(grid, {"kind": "DP0", "sel": sel, "swapped": swapped})
        slp = ops.potential("laplace", "single_layer", ps, pts, par=par)
        dlp = ops.potential("laplace", "double_layer", us, pts, par=par)
        els = [j for j in range(e.shape[1]) if sel[0] == "all" or d[j] in sel[1]]
        for k, (a, b) in enumerate(AFFINE):
            a = np.array(a)
            psi = np.array([normals[j] @ a for j in els])
            if uk == "P1":
                g = a @ v + b
            else:
                g = np.array([a @ v[:, int(le[i, j])] + b for j in els for i in range(3)])
            val = slp.evaluate(bem.GridFunction(ps, coefficients=psi)) - dlp.evaluate(bem.GridFunction(us, coefficients=g))
            out[k] += np.real(np.asarray(val)).reshape(-1)
    return out


def run_case(ctx, name, rep, r, cache):
    mesh = meshes.get(name, ctx.seed)
    if name not in cache:
        cache[name] = lattice(mesh, 13 if ctx.tier == "thorough" else 9)
    pts, inside = cache[name]
    v, e, d = mesh
    flip = None
    if rep.endswith("+swapped"):
        flip = sorted(set(d.tolist()))[0]
    case = {"mesh": name, "representation": rep, "regular": r}
    try:
        U = evaluate(mesh, rep.replace("+swapped", ""), r, pts, flip)
    except Exception as exc:  # noqa: BLE001
        ctx.violation("green/exception:%s/%s" % (type(exc).__name__, rep), case, repr(exc))
        return
    thr = 1e-6 if r >= 12 else 1e-4
    for k, (a, b) in enumerate(AFFINE):
        uex = (np.array(a) @ pts + b) * inside
        scale = float(np.max(np.abs(np.array(a) @ pts + b)))
        err = float(np.max(np.abs(U[k] - uex))) / scale
        ctx.observe("green-rel-error(r>=12)" if r >= 12 else "green-rel-error(r=8,10)", err, thr)
        if not err <= thr:
            q = int(np.argmax(np.abs(U[k] - uex)))
            ctx.violation("green/%s/%s" % (rep, "high" if r >= 12 else "low"), dict(case, u="1xyz"[k], point=pts[:, q].tolist(), inside=int(inside[q])),
                          "representation formula error %.3e > %.0e (u=%s, point inside=%d)" % (err, thr, "1xyz"[k], inside[q]))
    ctx.case((name, rep, r), sub="green", sample=dict(case, points=int(pts.shape[1]), interior=int(inside.sum())) if len(ctx.samples) < 4 else None)
    ctx.cover("interior_points", None, int(inside.sum()))
    ctx.cover("exterior_points", None, int((inside == 0).sum()))


def plan(ctx):
    if ctx.tier == "quick":
        ms = ["cube12^^", "octa^^", "lshape28^", "twotet^"]
        orders = [8, 12, 16]
    else:
        ms = ["tet^^", "octa^^", "prism8^^", "cube12^^", "lshape28^", "ushape^", "frame64^", "twocubes^", "twotet^^", "cavity^", "cube3^"]
        orders = [8, 10, 12, 16, 20]
    # "+swapped": the first domain is stored with reversed orientation and repaired through swapped_normals (whole-grid continuous P1
    # density - its localised space must carry the flips - and segment-wise DP1 densities)
    reps = ["P1/DP0", "DP1/DP0", "segments", "segments+swapped", "P1/DP0+swapped"]
    return ms, orders, reps


def run(ctx):
    ms, orders, reps = plan(ctx)
    cache = {}
    for name in ms:
        mesh = meshes.get(name, ctx.seed)
        v, e, d = mesh
        if not (R.is_closed_manifold(e) and R.is_consistently_oriented(e) and R.signed_volume(v, e) > 0):
            raise RuntimeError("catalogue mesh %s is not a closed outward oriented surface" % name)
        for rep in reps:
            if (rep.startswith("segments") or rep.endswith("+swapped")) and len(set(d.tolist())) < 2:
                continue
            for r in orders:
                run_case(ctx, name, rep, r, cache)
    ctx.require(ctx.cov.get("interior_points", 0) > 0 and ctx.cov.get("exterior_points", 0) > 0, "interior and exterior evaluation points present")
    ctx.assumptions += ["inside/outside and distance decided by the reference (solid-angle winding number, exact point-triangle distance)",
                        "points kept only if at least one maximal element diameter away from the surface"]
    return ctx.finish(rule="lattice mesh x density representation (whole-grid P1/DP0, DP1/DP0, sum of segment pieces, the same with one "
                      "segment physically reversed + swapped_normals) x regular order x {1,x,y,z} x all lattice points of the doubled "
                      "bounding box at least one element diameter from the surface; distinct = (mesh, representation, order)")


def replay(ctx, case):
    run_case(ctx, case["mesh"], case["representation"], case["regular"], {})
