"""C09 - function spaces are conforming and their DOF maps are coherent.

E1 over the space alphabet (mesh x kind x selection x include_boundary_dofs x truncate_at_segment_edge x
swapped normals).  Every global basis function is read through the public evaluation path and compared
with the reference meaning of the options (bex/models/basis_ref.py, DESIGN.md B.1).
"""

import itertools

import numpy as np

from bex import spaces as SP
from bex.core import ROUND
from bex.models import basis_ref as B
from bex.models import meshes
from bex.models import topo_ref as R

LEVEL = "model_checking"
TOL = 1e-11

REFUSAL_BC_SCREEN = "Boundary dofs inclusion is not implemented"
REFUSAL_STAR = "connected only by a vertex"


def star_irregular(mesh, mask=None):
    """True if some vertex star (restricted to mask) is not edge-connected or some edge is non-manifold."""
    v, e, d = mesh
    M = e.shape[1]
    mask = np.ones(M, dtype=bool) if mask is None else mask
    ue = R.undirected_edges(e)
    if any(len([t for t, _ in lst if mask[t]]) > 2 for lst in ue.values()):
        return True
    star = R.vertex_star(e, v.shape[1])
    for p, st in enumerate(star):
        st = [t for t in st if mask[t]]
        if len(st) <= 1:
            continue
        # connect through edges containing p
        comp = {st[0]}
        grow = True
        while grow:
            grow = False
            for t in st:
                if t in comp:
                    continue
                for s in list(comp):
                    if len(set(R.tri(e, t)) & set(R.tri(e, s))) == 2 and p in set(R.tri(e, t)) & set(R.tri(e, s)):
                        comp.add(t)
                        grow = True
                        break
        if len(comp) != len(st):
            return True
    return False


def bc_extended_support(mesh, S, spec):
    """Support of an untruncated BC/RBC space: the selection plus every element touching an end point of a dof edge."""
    v, e, d = mesh
    edofs, esup = B.rwg_expected(mesh, S, bool(spec.get("inc")), bool(spec.get("trunc")))
    ext = np.array(esup, dtype=bool) | np.asarray(S, dtype=bool)
    if spec.get("trunc"):
        return ext
    star = R.vertex_star(e, v.shape[1])
    for key in edofs:
        for p in key:
            ext[star[p]] = True
    return ext


def flagged_element_at_border(mesh, support, swapped):
    """True if an element of a swapped-normals domain inside `support` has an edge (or vertex) on the border of the support."""
    v, e, d = mesh
    flagged = set(int(x) for x in (swapped or ()))
    if not flagged:
        return False
    support = np.asarray(support)
    sup = set(int(t) for t in (np.flatnonzero(support) if support.dtype == bool else support))
    count = {}
    for t in sup:
        for a, b in ((0, 1), (1, 2), (2, 0)):
            k = tuple(sorted((int(e[a, t]), int(e[b, t]))))
            count[k] = count.get(k, 0) + 1
    border_vertices = set()
    for (a, b), c in count.items():
        if c == 1:
            border_vertices.update((a, b))
    return any(int(d[t]) in flagged and any(int(e[i, t]) in border_vertices for i in range(3)) for t in sup)


def orientation_inconsistent(mesh, swapped):
    """True if the effective orientation (vertex order x swapped-normals flag) flips across a manifold edge."""
    v, e, d = mesh
    if not swapped:
        return not R.is_consistently_oriented(e)
    flip = [j for j in range(e.shape[1]) if d[j] in set(swapped)]
    return not R.is_consistently_oriented(meshes.reverse_elements(mesh, flip)[1])


def _edge_point_match(e, t1, li1, t2, li2):
    """Pairs (pt index in t1, pt index in t2) of LOCAL_PTS on the common edge that coincide geometrically."""
    a1, b1 = R.EDGE_LOCAL[li1]
    a2, b2 = R.EDGE_LOCAL[li2]
    g1 = {int(e[a1, t1]): a1, int(e[b1, t1]): b1}
    g2 = {int(e[a2, t2]): a2, int(e[b2, t2]): b2}
    out = [(g1[p], g2[p]) for p in g1]  # local vertex index == LOCAL_PTS index for vertices
    out.append((B.EDGE_PTS[li1][2], B.EDGE_PTS[li2][2]))
    return out


def check_space(ctx, meshname, mesh, grid, spec, deep=True):
    kind = spec["kind"]
    key = (meshname,) + SP.spec_key(spec)
    case = {"mesh": meshname, "space": SP.spec_json(spec)}
    S = B.selection(mesh, spec.get("sel", ("all",)))
    whole = bool(S.all())
    sig0 = "%s/%s/sel=%s" % (kind, "inc=%s,trunc=%s" % (spec.get("inc"), spec.get("trunc")), "whole" if whole else "proper")
    v, e, d = mesh
    closed = R.is_closed_manifold(e)
    if kind in SP.EDGE_KINDS and any(len([t for t, _ in lst if S[t]]) > 2 for lst in R.undirected_edges(e).values()):
        # an edge with three or more neighbours inside the selection: no flux convention is documented (B.1) - outside the alphabet.
        # Selections that contain at most two neighbours of every edge (manifold sub-surfaces of a junction grid) stay in.
        ctx.declined += 1
        return None
    if kind in SP.EDGE_KINDS and spec.get("inc") and not spec.get("trunc") and not whole and any(
            len(lst) > 2 for lst in R.undirected_edges(e).values()):
        # untruncated boundary dofs on a grid with junction edges: which outside neighbours complete the functions is not documented
        ctx.declined += 1
        return None
    try:
        space = SP.make_space(grid, spec)
    except Exception as exc:  # noqa: BLE001
        msg = str(exc)
        if kind in ("BC", "RBC") and REFUSAL_BC_SCREEN in msg and spec.get("inc") and not closed:
            ctx.declined += 1
            return None
        if kind in SP.BARY_KINDS and REFUSAL_STAR in msg and (star_irregular(mesh) or star_irregular(mesh, S)
                                                              or star_irregular(mesh, bc_extended_support(mesh, S, spec))
                                                              or orientation_inconsistent(mesh, spec.get("swapped"))):
            ctx.declined += 1
            return None
        if kind in ("BC", "RBC") and len(B.rwg_expected(mesh, S, bool(spec.get("inc")), bool(spec.get("trunc")))[0]) == 0:
            ctx.violation(sig0 + "/empty-selection/construct", case, "function_space raised %r for a selection without edges" % (exc,))
            return None
        if kind in SP.EDGE_KINDS and any(len(l) > 2 for l in R.undirected_edges(e).values()):
            ctx.declined += 1  # edge spaces on non-manifold edges are outside the reference (B.1)
            return None
        if kind in ("BC", "RBC") and isinstance(exc, ValueError) and flagged_element_at_border(mesh, bc_extended_support(mesh, S, spec), spec.get("swapped")):
            # recorded finding: the border routine of the BC construction does not know swapped_normals
            ctx.violation("%s/construct/flagged-domain-at-border/exception:ValueError" % sig0, case,
                          "function_space raised %r: a domain stored reversed and repaired by swapped_normals touches the border of the support" % (exc,))
            return None
        ctx.violation("%s/construct/exception:%s" % (sig0, type(exc).__name__), case, "function_space raised %r" % (exc,))
        return None
    ctx.case(key, sub="space", sample=case if (len(ctx.samples) < 5 and not whole and kind in ("P1", "RWG", "BC")) else None)
    ctx.cover("kinds", kind)
    bary = kind in SP.BARY_KINDS
    smesh = SP.mesh_of_grid(space.grid) if bary else mesh
    sv, se, sd = smesh
    sup = np.asarray(space.support, dtype=bool)
    ndof = int(space.global_dof_count)
    l2g = np.asarray(space.local2global)
    mult = np.asarray(space.local_multipliers)
    F = SP.global_functions(space, B.LOCAL_PTS)
    if (mult[sup] == 0).any():
        ctx.cover("kinds_with_zero_multipliers", kind)
    if not whole and sup.any() and not sup[: int(sup.sum())].all():
        ctx.cover("non_prefix_support", kind)

    # ---- expected entity count (reference) ------------------------------------
    inc, trunc = spec.get("inc"), spec.get("trunc")
    if kind == "DP0" or kind == "DUAL1":
        expected = int(S.sum())
    elif kind == "DP1":
        expected = 3 * int(S.sum())
    elif kind in ("P1", "DUAL0"):
        pdofs, psup = B.p1_expected(mesh, S, bool(inc), bool(trunc))
        expected = len(pdofs)
    else:
        edofs, esup = B.rwg_expected(mesh, S, bool(inc), bool(trunc))
        expected = len(edofs)
    empty = expected == 0
    sig = sig0 + ("/empty-selection" if empty else "")
    if ndof != expected:
        ctx.violation(sig + "/dof-count", case, "global_dof_count %d != %d selected entities" % (ndof, expected))
    # ---- linear independence (no phantom / duplicated dofs) ----------------------
    if F:
        big = np.concatenate([F[t].reshape(-1, F[t].shape[2]) for t in sorted(F)], axis=0)
        rank = int(np.linalg.matrix_rank(big, tol=1e-9)) if big.size else 0
    else:
        rank = 0
    if rank != ndof:
        ctx.violation(sig + "/independence", case, "%d global dofs span a %d-dimensional space" % (ndof, rank))
    if empty:
        return space
    # ---- local2global / global2local ----------------------------------------------
    g2l = space.global2local
    grid_dofs = int(space.grid_dof_count)
    seen = set()
    for j in range(grid_dofs):
        for (t, i) in g2l[j]:
            if int(l2g[t, i]) != j or mult[t, i] == 0:
                ctx.violation(sig0 + "/global2local", case, "global2local[%d] lists (%d,%d) but local2global there is %d (mult %s)" % (j, t, i, l2g[t, i], mult[t, i]))
                break
            seen.add((int(t), int(i)))
    want = {(int(t), int(i)) for t in np.flatnonzero(sup) for i in range(l2g.shape[1]) if mult[t, i] != 0}
    if want != seen:
        ctx.violation(sig0 + "/local2global", case, "non-zero local dofs not listed by global2local: %s" % sorted(want ^ seen)[:4])
    if (mult[~sup] != 0).any():
        ctx.violation(sig0 + "/multipliers-off-support", case, "non-zero multipliers outside the support")
    # every grid dof used
    if grid_dofs and any(len(g2l[j]) == 0 for j in range(grid_dofs)):
        ctx.violation(sig0 + "/unused-dof", case, "a grid dof has no local dof")

    # ---- conformity ------------------------------------------------------------------
    ue = R.undirected_edges(se)
    # effective orientation flags from the reference (spec + domain indices), not from the space under test: barycentric element 6e+j
    # belongs to coarse element e
    flagged = set(int(x) for x in (spec.get("swapped") or ()))
    coarse_flag = np.array([-1 if int(dd) in flagged else 1 for dd in mesh[2]])
    nm = np.repeat(coarse_flag, 6) if se.shape[1] == 6 * mesh[1].shape[1] and kind in SP.BARY_KINDS else coarse_flag
    maxjump = 0.0
    for keyedge, lst in ue.items():
        nb = [(t, li) for t, li in lst if sup[t]]
        if len(nb) < 2:
            continue
        if len(nb) != len(lst):
            ctx.cover("junction_edges_with_partial_support", None)
        if kind in SP.EDGE_KINDS and len(nb) != 2:
            continue
        for (t1, li1), (t2, li2) in itertools.combinations(nb, 2):
            pairs = _edge_point_match(se, t1, li1, t2, li2)
            if kind == "P1":
                for a, b_ in pairs:
                    jump = np.max(np.abs(F[t1][0, a, :] - F[t2][0, b_, :])) if ndof else 0.0
                    maxjump = max(maxjump, jump)
                ctx.cover("conformity_edges_checked", None)
            elif kind in ("RWG", "BC"):
                nu1 = B.conormal(sv, se, t1, li1)[0]
                nu2 = B.conormal(sv, se, t2, li2)[0]
                for a, b_ in pairs:
                    jump = np.max(np.abs(nu1 @ F[t1][:, a, :] + nu2 @ F[t2][:, b_, :])) if ndof else 0.0
                    maxjump = max(maxjump, jump)
                ctx.cover("conformity_edges_checked", None)
            elif kind in ("SNC", "RBC"):
                a1, b1 = R.EDGE_LOCAL[li1]
                a2, b2 = R.EDGE_LOCAL[li2]
                opposite = int(se[a1, t1]) == int(se[b2, t2])  # consistently oriented neighbours traverse the edge in opposite directions
                if opposite == (nm[t1] != nm[t2]):
                    ctx.cover("snc_interface_skipped", None)
                    continue  # effective orientation flips across this edge (swapped-normals interface or junction): n x f not comparable
                tau = B.conormal(sv, se, t1, li1)[1]
                for a, b_ in pairs:
                    jump = np.max(np.abs(tau @ F[t1][:, a, :] - tau @ F[t2][:, b_, :])) if ndof else 0.0
                    maxjump = max(maxjump, jump)
                ctx.cover("conformity_edges_checked", None)
    if kind in ("P1", "RWG", "BC", "SNC", "RBC"):
        scale = 1.0 if kind == "P1" else 1.0
        ctx.observe("conformity-jump", maxjump, TOL)
        if maxjump > TOL * max(scale, 1.0):
            ctx.violation(sig0 + "/conformity", case, "jump %.3e of the %s trace across an interior edge" % (maxjump, {"P1": "function", "RWG": "normal", "BC": "normal"}.get(kind, "tangential")))

    # ---- partition of unity ---------------------------------------------------------------
    pou = False
    if kind == "DP0":
        pou = True
    elif kind in ("P1", "DUAL0"):
        pou = bool(inc) or (whole and closed)
    elif kind == "DUAL1":
        pou = whole and closed
    if pou:
        worst = 0.0
        for t, vals in F.items():
            parent = t // 6 if bary else t
            if not S[parent]:
                continue
            worst = max(worst, float(np.max(np.abs(vals[0].sum(axis=1) - 1))))
        # and all of S is covered
        covered = {(t // 6 if bary else t) for t in F}
        if not set(np.flatnonzero(S).tolist()) <= covered:
            ctx.violation(sig0 + "/partition-of-unity", case, "selected elements outside the support")
        ctx.observe("partition-of-unity", worst, TOL)
        if worst > TOL:
            ctx.violation(sig0 + "/partition-of-unity", case, "basis sums to 1 %+.3e somewhere on the selection" % worst)
        ctx.cover("pou_checked", kind)

    # ---- entity attachment and documented support ---------------------------------------------
    if not deep:
        return space
    M = e.shape[1]
    if kind in ("DP0", "DP1"):
        owners = []
        for j in range(ndof):
            own = [t for t in F if np.max(np.abs(F[t][0, :, j])) > 1e-14]
            owners.append(own)
        flat = [o[0] for o in owners if len(o) == 1]
        per = 1 if kind == "DP0" else 3
        if any(len(o) != 1 for o in owners) or sorted(flat) != sorted(list(np.flatnonzero(S)) * per):
            ctx.violation(sig0 + "/attachment", case, "dofs are not attached one-to-one to the selected elements")
        elif flat != sorted(flat):
            ctx.violation(sig0 + "/numbering", case, "dofs not numbered by increasing element index")
        if kind == "DP0" and whole and flat != list(range(M)):
            ctx.violation(sig0 + "/identity-numbering", case, "whole-grid DP0 dof e is not element e")
        if kind == "DP1":
            for j, own in enumerate(owners):
                if len(own) == 1:
                    vals = F[own[0]][0, :3, j]
                    if sorted(np.round(vals, 12).tolist()) != [0.0, 0.0, 1.0]:
                        ctx.violation(sig0 + "/nodal", case, "DP1 dof %d is not a nodal function" % j)
                        break
    elif kind == "P1":
        attach = {}
        for j in range(ndof):
            ones = set()
            for t in F:
                for i in range(3):
                    val = F[t][0, i, j]
                    if abs(val - 1) < 1e-12:
                        ones.add(int(e[i, t]))
                    elif abs(val) > 1e-12:
                        ctx.violation(sig0 + "/nodal", case, "dof %d has value %.3g at a vertex" % (j, val))
            if len(ones) != 1:
                ctx.violation(sig0 + "/attachment", case, "dof %d equals 1 at vertices %s" % (j, sorted(ones)))
                return space
            attach[j] = ones.pop()
        if sorted(attach.values()) != pdofs:
            ctx.violation(sig0 + "/attachment", case, "dof vertices %s != selected vertices %s" % (sorted(attach.values()), pdofs))
            return space
        if [attach[j] for j in range(ndof)] != pdofs:
            ctx.violation(sig0 + "/numbering", case, "dofs not numbered by increasing vertex index")
        if whole and closed and [attach[j] for j in range(ndof)] != list(range(v.shape[1])):
            ctx.violation(sig0 + "/identity-numbering", case, "whole-grid P1 dof v is not vertex v")
        star = R.vertex_star(e, v.shape[1])
        worst = 0.0
        for j, p in attach.items():
            sup_j = star[p] if (inc and not trunc) else [t for t in star[p] if S[t]]
            for t in range(M):
                exp = B.LAMBDA[R.tri(e, t).index(p)] if t in sup_j else np.zeros(B.LAMBDA.shape[1])
                got = F[t][0, :, j] if t in F else np.zeros(B.LAMBDA.shape[1])
                worst = max(worst, float(np.max(np.abs(got - exp))))
        ctx.observe("function-vs-reference", worst, TOL)
        if worst > TOL:
            ctx.violation(sig0 + "/function", case, "a basis function differs from the (truncated/full) hat function by %.3e" % worst)
        if not np.array_equal(sup, psup):
            ctx.violation(sig0 + "/support", case, "support differs from the union of the basis function supports")
    elif kind in ("RWG", "SNC"):
        ueC = R.undirected_edges(e)
        attach = {}
        worst = 0.0
        for j in range(ndof):
            found = None
            for t in F:
                for li in range(3):
                    mid = B.EDGE_PTS[li][2]
                    nu, tau, n = B.conormal(v, e, t, li)
                    comp = (nu if kind == "RWG" else tau) @ F[t][:, mid, j]
                    if abs(abs(comp) - 1) < 1e-11:
                        k = frozenset((int(e[R.EDGE_LOCAL[li][0], t]), int(e[R.EDGE_LOCAL[li][1], t])))
                        if found is not None and found != k:
                            ctx.violation(sig0 + "/attachment", case, "dof %d has unit trace on two edges" % j)
                        found = k
                    elif abs(comp) > 1e-11:
                        ctx.violation(sig0 + "/attachment", case, "dof %d has trace %.3g on an edge" % (j, comp))
            if found is None:
                ctx.violation(sig0 + "/attachment", case, "dof %d has unit trace on no edge" % j)
                return space
            attach[j] = found
        if set(attach.values()) != edofs or len(set(attach.values())) != ndof:
            ctx.violation(sig0 + "/attachment", case, "dof edges differ from the selected edges (%d vs %d)" % (len(set(attach.values())), len(edofs)))
            return space
        for j, k in attach.items():
            nb = [t for t, _ in ueC[k]]
            inS = [t for t in nb if S[t]]
            sup_j = inS if (len(inS) == 2 or trunc or not inc) else nb
            signs = []
            for t in range(M):
                got = F[t][:, :, j] if t in F else np.zeros((3, B.LAMBDA.shape[1]))
                if t in sup_j:
                    li = B.local_edge_of(e, t, k)
                    ref = B.rwg_local(v, e, t, li, B.LAMBDA)
                    if kind == "SNC":
                        n = B.conormal(v, e, t, li)[2]
                        ref = np.cross(n[:, None], ref, axis=0)
                    s = 1.0 if np.sum(got * ref) >= 0 else -1.0
                    signs.append(s)
                    worst = max(worst, float(np.max(np.abs(got - s * ref))))
                else:
                    worst = max(worst, float(np.max(np.abs(got))))
        ctx.observe("function-vs-reference", worst, TOL * 10)
        if worst > TOL * 10:
            ctx.violation(sig0 + "/function", case, "a basis function differs from +-(n x) l/(2A)(x-p) by %.3e" % worst)
        if not np.array_equal(sup, esup):
            ctx.violation(sig0 + "/support", case, "support differs from the union of the basis function supports")
    elif kind == "DUAL0":
        # indicator of the dual cell of a P1 dof vertex: barycentric children whose first vertex is that vertex
        star = R.vertex_star(e, v.shape[1])
        got_attach = []
        ok = True
        for j in range(ndof):
            cells = set()
            for t in F:
                vals = F[t][0, :, j]
                if np.max(np.abs(vals - vals[0])) > 1e-13 or min(abs(vals[0]), abs(vals[0] - 1)) > 1e-13:
                    ctx.violation(sig0 + "/indicator", case, "DUAL0 dof %d is not an indicator function" % j)
                    ok = False
                    break
                if abs(vals[0] - 1) < 1e-13:
                    cells.add(t)
            if not ok:
                break
            firsts = {int(se[0, c]) for c in cells}
            if len(firsts) != 1:
                ctx.violation(sig0 + "/attachment", case, "DUAL0 dof %d covers cells around vertices %s" % (j, sorted(firsts)))
                ok = False
                break
            p = firsts.pop()
            got_attach.append(p)
            sup_j = star[p] if (inc and not trunc) else [t for t in star[p] if S[t]]
            expcells = {c for t in sup_j for c in range(6 * t, 6 * t + 6) if int(se[0, c]) == p}
            if cells != expcells:
                ctx.violation(sig0 + "/dual-cell", case, "DUAL0 dof at vertex %d covers %d sub-triangles, dual cell has %d" % (p, len(cells), len(expcells)))
                ok = False
                break
        if ok and got_attach != pdofs:
            ctx.violation(sig0 + "/attachment", case, "DUAL0 dof vertices %s != %s" % (got_attach, pdofs))
    elif kind == "DUAL1":
        got = []
        for j in range(ndof):
            best = None
            for t in F:
                # value at the barycentre of the coarse parent = the sub-triangle vertex that is the coarse centroid
                for i in range(3):
                    if abs(F[t][0, i, j] - 1) < 1e-12:
                        best = t // 6 if best is None or best == t // 6 else -1
            got.append(best)
        if sorted(x for x in got if x is not None and x >= 0) != sorted(np.flatnonzero(S).tolist()) or len(got) != int(S.sum()):
            ctx.violation(sig0 + "/attachment", case, "DUAL1 dofs are not attached one-to-one to the selected elements (value 1 only inside the element)")
    return space


def selections(mesh, full_subsets):
    v, e, d = mesh
    M = e.shape[1]
    out = [("all",)]
    doms = sorted(set(d.tolist()))
    if len(doms) > 1:
        for r in range(1, len(doms) + (0 if len(doms) > 1 else 1)):
            for c in itertools.combinations(doms, r):
                out.append(("segments", c))
    if full_subsets:
        for sub in R.all_subsets(M):
            if len(sub) < M:
                out.append(("elements", sub))
    return out


def spaces_for(mesh, sels, kinds, swapped_opts):
    for sel in sels:
        for kind in kinds:
            for inc, trunc in SP.option_variants(kind):
                for sw in swapped_opts:
                    yield {"kind": kind, "sel": sel, "inc": inc, "trunc": trunc, "swapped": sw}


ALL_KINDS = ["DP0", "DP1", "P1", "RWG", "SNC", "DUAL0", "DUAL1", "BC", "RBC"]


def plan(ctx):
    quick = ctx.tier == "quick"
    P = []
    # (mesh, kinds, full element subsets?, swapped options, max subset size of domains (None = all))
    if quick:
        P += [("edge2", ALL_KINDS, True, [()]), ("bow2", ["DP0", "DP1", "P1", "RWG", "SNC"], True, [()]),
              ("fan4", ALL_KINDS, True, [()]), ("book3", ["DP0", "DP1", "P1", "RWG", "SNC"], True, [()]),
              ("gluedtets", ["DP0", "DP1", "P1", "RWG", "SNC"], True, [()]),
              ("tet", ALL_KINDS, True, [(), (1,)]), ("octa", ALL_KINDS, False, [(), (2,)]),
              ("screen2x2", ALL_KINDS, False, [()]), ("cube12", ALL_KINDS, False, [()]),
              ("nested", ["P1", "RWG", "SNC", "BC", "RBC", "DUAL0"], False, [(5,)]), ("torus18", ALL_KINDS, False, [()]),
              # a domain stored with reversed orientation and repaired through swapped_normals: the effective orientation is consistent,
              # so BC/RBC accept the grid and the normal multipliers of the barycentric elements matter
              ("tet~1", ["RWG", "SNC", "BC", "RBC", "DUAL0", "DUAL1"], False, [(1,)]), ("octa~2", ["SNC", "BC", "RBC"], False, [(2,)]),
              ("edge2~1", ["RWG", "SNC", "BC", "RBC"], False, [(1,)])]
    else:
        P += [("tri1", ["DP0", "DP1", "P1", "RWG", "SNC"], True, [()]), ("edge2", ALL_KINDS, True, [(), (1,)]),
              ("bow2", ["DP0", "DP1", "P1", "RWG", "SNC"], True, [(), (1,)]),
              ("fan4", ALL_KINDS, True, [(), (1,)]), ("fan5", ALL_KINDS, True, [()]),
              ("book3", ["DP0", "DP1", "P1", "RWG", "SNC"], True, [()]), ("gluedtets", ["DP0", "DP1", "P1", "RWG", "SNC"], True, [()]),
              ("tet", ALL_KINDS, True, [(), (1,)]), ("octa", ALL_KINDS, True, [(), (2,)]),
              ("prism8", ALL_KINDS, True, [()]),
              ("screen2x2", ALL_KINDS, True, [()]), ("screen3x3", ALL_KINDS, False, [(), (1,)]),
              ("cube12", ALL_KINDS, False, [(), (3,)]), ("twotet", ALL_KINDS, False, [(), (2, 3)]),
              ("nested", ALL_KINDS, False, [(), (5,)]), ("torus18", ALL_KINDS, False, [(), (1,)]),
              ("lshape28", ALL_KINDS, False, [()]),
              ("tet~1", ALL_KINDS, True, [(1,)]), ("octa~2", ALL_KINDS, True, [(2,)]), ("cube12~3", ALL_KINDS, False, [(3,)]),
              ("nested~5", ALL_KINDS, False, [(5,)]), ("screen3x3~1", ALL_KINDS, False, [(1,)]), ("edge2~1", ALL_KINDS, True, [(1,)]),
              ("fan4~1", ALL_KINDS, True, [(1,)])]
    return P


def run_mesh(ctx, name, kinds, full, swapped_opts):
    mesh = meshes.get(name, ctx.seed)
    grid = SP.make_grid(mesh)
    sels = selections(mesh, full)
    if ctx.tier == "quick" and name == "cube12":
        sels = [s for s in sels if s[0] == "all" or len(s[1]) in (1, 2, 5)]
    n = 0
    for spec in spaces_for(mesh, sels, kinds, swapped_opts):
        if spec["sel"][0] == "elements" and spec["kind"] in SP.BARY_KINDS and mesh[1].shape[1] > 5:
            continue  # barycentric kinds on arbitrary element subsets: only on the smallest meshes
        check_space(ctx, name, mesh, grid, spec)
        n += 1
    return n


def run(ctx):
    total = 0
    for name, kinds, full, sw in plan(ctx):
        total += run_mesh(ctx, name, kinds, full, sw)
    ctx.states = len(ctx.distinct)
    ctx.transitions = total
    ctx.traces_validated = total
    ctx.require(set(ctx.cov.get("kinds", ())) == set(ALL_KINDS), "every space kind constructed")
    ctx.require({"P1", "RWG", "SNC"} <= set(ctx.cov.get("kinds_with_zero_multipliers", ())), "spaces with artificial zero-multiplier dofs present")
    ctx.require(len(ctx.cov.get("non_prefix_support", ())) > 0, "a support that is not a prefix of the element numbering")
    ctx.require(ctx.cov.get("conformity_edges_checked", 0) > 100, "conformity checked on interior edges")
    ctx.require(ctx.cov.get("junction_edges_with_partial_support", 0) > 0, "junction edges (3 neighbours) with exactly two neighbours in the support present")
    ctx.assumptions += ["reference meaning of segments/include_boundary_dofs/truncate_at_segment_edge: DESIGN.md Appendix B.1",
                        "edge spaces on non-manifold edges and SNC/RBC traces across swapped-normal interfaces are declined"]
    return ctx.finish(
        rule="exhaustive lattice: mesh x kind x {whole grid, every non-empty proper subset of domain indices, (small meshes) every "
        "proper subset of elements} x all (include_boundary_dofs, truncate_at_segment_edge) combinations x swapped normals; "
        "state = one constructed space; every global basis function evaluated at 7 points per element through the public "
        "evaluation path and compared with the reference; distinct = distinct (mesh, space spec)",
    )


def replay(ctx, case):
    mesh = meshes.get(case["mesh"], ctx.seed)
    grid = SP.make_grid(mesh)
    check_space(ctx, case["mesh"], mesh, grid, SP.spec_from_json(case["space"]))
