"""C14 - operator, grid-function and potential algebra is coherent.

E2 over a typed term language: all terms with a bounded number of operator nodes are built from a pool of real
objects; a reference type checker + interpreter over dense NumPy matrices (DESIGN B.2) decides whether the term is
well typed and what it must evaluate to.
"""

import itertools

import numpy as np

from bex import ops
from bex import spaces as SP
from bex.models import meshes

LEVEL = "model_checking"
TOL = 1e-11


class Ill(Exception):
    """The reference type checker rejects the term."""


SCALARS = [("2.0", 2.0), ("-1", -1), ("1j", 1j), ("f32(3)", np.float32(3)), ("f64(.5)", np.float64(0.5)), ("c64(1j)", np.complex64(1j)),
           ("i64(2)", np.int64(2))]


# ---------------------------------------------------------------------------
# pool of real objects and their reference values
# ---------------------------------------------------------------------------
class Pool:
    def __init__(self, seed):
        import bempp_cl.api as bem
        from bempp_cl.api.assembly import discrete_boundary_operator as dbo
        import scipy.sparse as sps

        self.bem = bem
        mesh = meshes.get("tet", seed)
        g = SP.make_grid(mesh)
        S = {"S0": SP.make_space(g, {"kind": "DP0"}), "S0b": SP.make_space(g, {"kind": "DP0"}), "S1": SP.make_space(g, {"kind": "P1"}),
             "S2": SP.make_space(g, {"kind": "DP1"})}
        self.S = S
        self.name_of = {"S0": "S0", "S0b": "S0", "S1": "S1", "S2": "S2"}
        self.dim = {"S0": 4, "S1": 4, "S2": 12}
        B = ops.boundary
        self.lib = {}
        self.ref = {}

        def bop(name, op, dom, ran, dual):
            self.lib[name] = op
            self.ref[name] = ("bop", (self.name_of[dom], self.name_of[ran], self.name_of[dual]), np.asarray(op.weak_form().to_dense()))

        bop("A", B("laplace", "single_layer", S["S0"], S["S0"], S["S0"]), "S0", "S0", "S0")
        bop("A2", B("laplace", "single_layer", S["S0b"], S["S0b"], S["S0b"], par=ops.params(3, 3)), "S0b", "S0b", "S0b")
        bop("H", B("helmholtz", "single_layer", S["S0"], S["S0"], S["S0"], k=1.2), "S0", "S0", "S0")
        # a real operator assembled in single precision (float32 discrete operator): combinations involving it are compared to single accuracy
        bop("As", B("laplace", "single_layer", S["S0"], S["S0"], S["S0"], precision="single"), "S0", "S0", "S0")
        bop("C", B("laplace", "double_layer", S["S1"], S["S0"], S["S0"]), "S1", "S0", "S0")
        bop("D", B("laplace", "adjoint_double_layer", S["S0"], S["S1"], S["S1"]), "S0", "S1", "S1")
        bop("I0", B("sparse", "identity", S["S0"], S["S0"], S["S0"]), "S0", "S0", "S0")
        bop("I1", B("sparse", "identity", S["S1"], S["S1"], S["S1"]), "S1", "S1", "S1")
        bop("Z", bem.ZeroBoundaryOperator(S["S0"], S["S0"], S["S0"]), "S0", "S0", "S0")
        self.mass = {"S0": self.ref["I0"][2], "S1": self.ref["I1"][2]}
        # blocked operators
        def blocked(name, rows):
            blk = bem.BlockedOperator(len(rows), len(rows[0]))
            for i, row in enumerate(rows):
                for j, nm in enumerate(row):
                    if nm is not None:
                        blk[i, j] = self.lib[nm]
            self.lib[name] = blk
            self.ref[name] = self._blk_ref(rows)

        blocked("B1", [["A", "C"], ["D", "I1"]])
        blocked("B2", [["A2", None], ["D", "I1"]])
        blocked("B3", [["I1", "D"], ["C", "A"]])  # domain (S1,S0): incompatible with B1 for +, compatible for some products
        self.lib["G1"] = bem.GeneralizedBlockedOperator([[self.lib["A"], self.lib["C"]], [self.lib["D"], self.lib["I1"]]])
        self.ref["G1"] = self._blk_ref([["A", "C"], ["D", "I1"]])
        # discrete operators
        rng = np.cos(np.arange(16).reshape(4, 4) * 1.3 + 0.2)
        dd = {
            "Dr": (dbo.DenseDiscreteBoundaryOperator(rng.copy()), rng.copy()),
            "Dc": (dbo.DenseDiscreteBoundaryOperator(rng.T + 1j * rng), rng.T + 1j * rng),
            "Sp": (dbo.SparseDiscreteBoundaryOperator(sps.csr_matrix(self.ref["I1"][2])), self.ref["I1"][2].copy()),
            "Dg": (dbo.DiagonalOperator(np.array([1.0, -2.0, 0.5, 3.0])), np.diag([1.0, -2.0, 0.5, 3.0])),
            "Inv": (dbo.InverseSparseDiscreteBoundaryOperator(dbo.SparseDiscreteBoundaryOperator(sps.csc_matrix(self.ref["I1"][2]))), np.linalg.inv(self.ref["I1"][2])),
            "Zd": (dbo.ZeroDiscreteBoundaryOperator(4, 4), np.zeros((4, 4))),
            "R1": (dbo.DiscreteRankOneOperator(np.array([1.0, 2.0, -1.0, 0.5]), np.array([0.3, 0.0, 1.0, -2.0])),
                   np.outer([1.0, 2.0, -1.0, 0.5], [0.3, 0.0, 1.0, -2.0])),
            "Rect": (dbo.DenseDiscreteBoundaryOperator(np.sin(np.arange(12).reshape(4, 3) + 0.1)), np.sin(np.arange(12).reshape(4, 3) + 0.1)),
        }
        for k, (o, m) in dd.items():
            self.lib[k] = o
            self.ref[k] = ("disc", m.shape, np.asarray(m))
        # grid functions
        cf = np.array([0.3, -1.2, 0.7, 2.0])
        cg = np.array([1.0 + 0.5j, -0.2j, 0.4, -1.1 + 0.3j])
        ch = np.array([0.5, 0.25, -1.0, 0.8])
        self.lib["f"] = bem.GridFunction(S["S0"], coefficients=cf)
        self.lib["g"] = bem.GridFunction(S["S0b"], coefficients=cg)
        self.lib["h"] = bem.GridFunction(S["S1"], coefficients=ch)
        # grid functions in dual representation are lazy: reading .coefficients flips them to the primal representation for good, so each
        # term gets fresh objects (otherwise only the very first term would see the dual representation)
        M01 = np.asarray(B("sparse", "identity", S["S1"], S["S1"], S["S0"]).weak_form().to_dense())  # rows: DP0 test functions, cols: P1
        ch1 = np.array([0.9, -0.4, 0.3, 1.7])
        ch0 = np.array([-0.6, 1.1, 0.2, 0.5 + 0.25j])
        self.fresh = {
            "fd": lambda: bem.GridFunction(S["S0"], projections=self.mass["S0"] @ (2 * cf), dual_space=S["S0"]),
            "hd1": lambda: bem.GridFunction(S["S1"], projections=self.mass["S1"] @ ch1, dual_space=S["S1"]),
            "hd0": lambda: bem.GridFunction(S["S1"], projections=M01 @ ch0, dual_space=S["S0"]),
        }
        self.lib["fd"] = self.fresh["fd"]()
        self.lib["hd1"], self.lib["hd0"] = self.fresh["hd1"](), self.fresh["hd0"]()
        self.ref["hd1"] = ("gf", "S1", ch1)
        self.ref["hd0"] = ("gf", "S1", ch0)
        self.ref["f"] = ("gf", "S0", cf)
        self.ref["g"] = ("gf", "S0", cg)
        self.ref["h"] = ("gf", "S1", ch)
        self.ref["fd"] = ("gf", "S0", 2 * cf)
        # potential operators
        pts = np.array([[1.9, 0.3, 0.4], [0.2, -1.7, 0.6], [0.5, 0.4, 2.2]]).T
        pts2 = pts + 0.5
        def pot(name, space, points, family="laplace", opn="single_layer", k=None):
            p = ops.potential(family, opn, S[space], points, k=k)
            n = S[space].global_dof_count
            M = np.array([np.asarray(p.evaluate(bem.GridFunction(S[space], coefficients=np.eye(n)[j]))).reshape(-1) for j in range(n)]).T
            self.lib[name] = p
            self.ref[name] = ("pot", (self.name_of[space], id(points), 1), M)
        pot("p", "S1", pts)
        pot("q", "S1", pts, opn="double_layer")
        pot("pp", "S1", pts2)
        pot("ps", "S0", pts)

    def _blk_ref(self, rows):
        doms = [None] * len(rows[0])
        rans, duals = [None] * len(rows), [None] * len(rows)
        for i, row in enumerate(rows):
            for j, nm in enumerate(row):
                if nm is not None:
                    d, r, du = self.ref[nm][1]
                    doms[j], rans[i], duals[i] = d, r, du
        blocks = []
        for i, row in enumerate(rows):
            brow = []
            for j, nm in enumerate(row):
                brow.append(self.ref[nm][2] if nm is not None else np.zeros((self.dim[duals[i]], self.dim[doms[j]])))
            blocks.append(brow)
        return ("blk", (tuple(doms), tuple(rans), tuple(duals)), np.block(blocks))


LEAVES = {
    "bop": ["A", "A2", "H", "C", "D", "I0", "I1", "Z", "As"],
    "blk": ["B1", "B2", "B3", "G1"],
    "disc": ["Dr", "Dc", "Sp", "Dg", "Inv", "Zd", "R1", "Rect"],
    "gf": ["f", "g", "h", "fd", "hd1", "hd0"],
    "pot": ["p", "q", "pp", "ps"],
}


# ---------------------------------------------------------------------------
# reference interpreter
# ---------------------------------------------------------------------------
def magnitude(t, pool):
    """Natural magnitude of a term (sum / product of operand magnitudes): the scale for rounding-level comparisons."""
    op = t[0]
    if op == "leaf":
        return float(np.max(np.abs(pool.ref[t[1]][2]))) or 1.0
    if op == "smul":
        return abs(dict(SCALARS)[t[1]]) * magnitude(t[2], pool)
    if op == "muls":
        return abs(dict(SCALARS)[t[2]]) * magnitude(t[1], pool)
    if op == "div":
        return magnitude(t[1], pool) / abs(dict(SCALARS)[t[2]])
    if op in ("neg", "T", "H"):
        return magnitude(t[1], pool)
    if op in ("add", "sub", "iadd", "isub"):
        return magnitude(t[1], pool) + magnitude(t[2], pool)
    a, b = ref_eval(t[1], pool), ref_eval(t[2], pool)
    n = max(np.asarray(a[2]).shape + np.asarray(b[2]).shape)
    extra = 1.0
    if a[0] in ("bop", "blk") and b[0] in ("bop", "blk", "gf"):
        extra = 1.0 / min(float(np.min(np.abs(np.linalg.eigvalsh(pool.mass[x])))) for x in ("S0", "S1"))
    return magnitude(t[1], pool) * magnitude(t[2], pool) * n * extra


def ref_eval(t, pool):
    op = t[0]
    if op == "leaf":
        return pool.ref[t[1]]
    if op in ("smul", "muls"):
        s = dict(SCALARS)[t[1]] if op == "smul" else dict(SCALARS)[t[2]]
        x = ref_eval(t[2] if op == "smul" else t[1], pool)
        return (x[0], x[1], x[2] * s)
    if op == "div":
        x = ref_eval(t[1], pool)
        return (x[0], x[1], x[2] / dict(SCALARS)[t[2]])
    if op == "neg":
        x = ref_eval(t[1], pool)
        return (x[0], x[1], -x[2])
    if op in ("T", "H"):
        x = ref_eval(t[1], pool)
        m = x[2].T if op == "T" else x[2].conj().T
        return ("disc", m.shape, m)
    a = ref_eval(t[1], pool)
    b = ref_eval(t[2], pool)
    if op in ("add", "sub", "iadd", "isub"):
        if a[0] != b[0]:
            raise Ill("sorts differ")
        if a[0] == "pot":
            if a[1] != b[1]:
                raise Ill("potential operators on different spaces / points")
        elif a[1] != b[1]:
            raise Ill("types differ: %s vs %s" % (a[1], b[1]))
        return (a[0], a[1], a[2] + b[2] if op in ("add", "iadd") else a[2] - b[2])
    if op in ("mul", "matmul"):
        if a[0] == "bop" and b[0] == "bop":
            if b[1][1] != a[1][0]:
                raise Ill("range of second operand differs from domain of first")
            M = pool.mass[b[1][1]] if b[1][1] == b[1][2] else None
            if M is None:
                raise Ill("no mass matrix in the reference")
            return ("bop", (b[1][0], a[1][1], a[1][2]), a[2] @ np.linalg.solve(M, b[2]))
        if a[0] == "blk" and b[0] == "blk":
            if b[1][1] != a[1][0]:
                raise Ill("blocked: range spaces of second differ from domain spaces of first")
            if b[1][1] != b[1][2]:
                raise Ill("no mass matrix in the reference")
            Ms = [pool.mass[s] for s in b[1][1]]
            import scipy.linalg

            M = scipy.linalg.block_diag(*Ms)
            return ("blk", (b[1][0], a[1][1], a[1][2]), a[2] @ np.linalg.solve(M, b[2]))
        if a[0] == "disc" and b[0] == "disc":
            if a[1][1] != b[1][0]:
                raise Ill("shapes")
            m = a[2] @ b[2]
            return ("disc", m.shape, m)
        if a[0] == "bop" and b[0] == "gf":
            if b[1] != a[1][0]:
                raise Ill("function not in the domain")
            proj = a[2] @ b[2]
            if a[1][1] != a[1][2]:
                raise Ill("no mass matrix in the reference")
            return ("gf", a[1][1], np.linalg.solve(pool.mass[a[1][1]], proj))
        if a[0] == "pot" and b[0] == "gf":
            if b[1] != a[1][0]:
                raise Ill("function not in the potential's space")
            return ("vals", None, a[2] @ b[2])
        raise Ill("no such product")
    raise ValueError(t)


def lib_eval(t, pool):
    op = t[0]
    if op == "leaf":
        if t[1] in pool.fresh:
            return pool.fresh[t[1]]()
        return pool.lib[t[1]]
    if op == "smul":
        return dict(SCALARS)[t[1]] * lib_eval(t[2], pool)
    if op == "muls":
        return lib_eval(t[1], pool) * dict(SCALARS)[t[2]]
    if op == "div":
        return lib_eval(t[1], pool) / dict(SCALARS)[t[2]]
    if op == "neg":
        return -lib_eval(t[1], pool)
    if op == "T":
        return lib_eval(t[1], pool).T
    if op == "H":
        return lib_eval(t[1], pool).H
    a = lib_eval(t[1], pool)
    b = lib_eval(t[2], pool)
    if op == "add":
        return a + b
    if op == "sub":
        return a - b
    if op == "iadd":  # a += b (only ZeroBoundaryOperator defines __iadd__/__isub__; everything else falls back to a + b, nothing is mutated)
        import operator

        return operator.iadd(a, b)
    if op == "isub":
        import operator

        return operator.isub(a, b)
    if op == "mul":
        return a * b
    if op == "matmul":
        return a @ b
    raise ValueError(t)


def observe(sort, obj, pool):
    """Numbers produced by a library object of the given sort (raises if the object refuses)."""
    bem = pool.bem
    out = {}
    if sort in ("bop", "blk"):
        w = obj.weak_form()
        out["dense"] = np.asarray(w.to_dense())
        n = w.shape[1]
        out["matvec"] = np.array([np.asarray(w @ np.eye(n)[j]).reshape(-1) for j in range(n)]).T
        xc = np.cos(np.arange(n) + 0.3) + 1j * np.sin(1.7 * np.arange(n))
        out["complex-matvec"] = np.asarray(w @ xc).reshape(-1)
        X = np.vstack([np.cos(np.arange(n)), np.sin(np.arange(n) * 2.0)]).T
        out["matmat"] = np.asarray(w @ X)
    elif sort == "disc":
        n = obj.shape[1]
        if hasattr(obj, "to_dense"):
            out["dense"] = np.asarray(obj.to_dense())
        else:
            # transposes/adjoints of operators without their own _transpose are plain scipy LinearOperators (no to_dense):
            # they only promise the LinearOperator protocol
            out["dense"] = np.asarray(obj @ np.eye(n))
        out["matvec"] = np.array([np.asarray(obj @ np.eye(n)[j]).reshape(-1) for j in range(n)]).T
        xc = np.cos(np.arange(n) + 0.3) + 1j * np.sin(1.7 * np.arange(n))
        out["complex-matvec"] = np.asarray(obj @ xc).reshape(-1)
        X = np.vstack([np.cos(np.arange(n)), np.sin(np.arange(n) * 2.0)]).T
        out["matmat"] = np.asarray(obj @ X)
    elif sort == "gf":
        out["coefficients"] = np.asarray(obj.coefficients).reshape(-1)
    elif sort == "pot":
        sp = obj.space
        n = sp.global_dof_count
        out["matrix"] = np.array([np.asarray(obj.evaluate(bem.GridFunction(sp, coefficients=np.eye(n)[j]))).reshape(-1) for j in range(n)]).T
        _ = obj.evaluation_points
        _ = obj.component_count
    elif sort == "vals":
        out["values"] = np.asarray(obj).reshape(-1)
    return out


def expected(sort, ref):
    val = ref[2]
    if sort in ("bop", "blk", "disc"):
        n = val.shape[1]
        xc = np.cos(np.arange(n) + 0.3) + 1j * np.sin(1.7 * np.arange(n))
        X = np.vstack([np.cos(np.arange(n)), np.sin(np.arange(n) * 2.0)]).T
        return {"dense": val, "matvec": val, "complex-matvec": val @ xc, "matmat": val @ X}
    if sort == "gf":
        return {"coefficients": val}
    if sort == "pot":
        return {"matrix": val}
    return {"values": val}


# ---------------------------------------------------------------------------
# term enumeration
# ---------------------------------------------------------------------------
def sort_of(t):
    op = t[0]
    if op == "leaf":
        for s, names in LEAVES.items():
            if t[1] in names:
                return s
    if op in ("smul",):
        return sort_of(t[2])
    if op in ("muls", "neg", "div", "T", "H"):
        return sort_of(t[1])
    if op in ("add", "sub", "iadd", "isub"):
        return sort_of(t[1])
    if op in ("mul", "matmul"):
        a, b = sort_of(t[1]), sort_of(t[2])
        if a == "bop" and b == "gf":
            return "gf"
        if a == "pot" and b == "gf":
            return "vals"
        return a
    raise ValueError(t)


def nodes(t):
    return 0 if t[0] == "leaf" else 1 + sum(nodes(x) for x in t[1:] if isinstance(x, tuple))


def terms(max_nodes, scalars):
    """All terms with at most max_nodes operator nodes (sort-level well formed; space typing may be wrong)."""
    by = {0: [("leaf", n) for names in LEAVES.values() for n in names]}
    for k in range(1, max_nodes + 1):
        new = []
        for t in by[k - 1]:
            s = sort_of(t)
            if s == "vals":
                continue
            new.append(("neg", t))
            for sn, _ in scalars:
                new.append(("smul", sn, t))
                new.append(("muls", t, sn))
            if s == "gf":
                new.append(("div", t, scalars[0][0]))
            if s == "disc":
                new += [("T", t), ("H", t)]
        for i in range(k):
            j = k - 1 - i
            for a in by[i]:
                sa = sort_of(a)
                if sa == "vals":
                    continue
                for b in by[j]:
                    sb = sort_of(b)
                    if sb == "vals":
                        continue
                    if sa == sb:
                        new.append(("add", a, b))
                        new.append(("sub", a, b))
                        if i + j == 0:
                            new.append(("iadd", a, b))
                            new.append(("isub", a, b))
                        if sa in ("bop", "blk", "disc"):
                            new.append(("mul", a, b))
                            if sa != "disc" or i + j == 0:
                                new.append(("matmul", a, b))
                    elif (sa, sb) in (("bop", "gf"), ("pot", "gf")):
                        new.append(("mul", a, b))
                    elif {sa, sb} == {"blk", "bop"} and i + j == 0:
                        new.append(("add", a, b))  # ill-sorted on purpose: must be rejected
        by[k] = new
    out = []
    for k in range(max_nodes + 1):
        out += by[k]
    return out


def show(t):
    op = t[0]
    if op == "leaf":
        return t[1]
    if op == "smul":
        return "%s*%s" % (t[1], show(t[2]))
    if op == "muls":
        return "%s*%s" % (show(t[1]), t[2])
    if op == "div":
        return "%s/%s" % (show(t[1]), t[2])
    if op == "neg":
        return "-(%s)" % show(t[1])
    if op in ("T", "H"):
        return "(%s).%s" % (show(t[1]), op)
    sym = {"add": "+", "sub": "-", "mul": "*", "matmul": "@", "iadd": "+=", "isub": "-="}[op]
    return "(%s %s %s)" % (show(t[1]), sym, show(t[2]))


def shape_sig(t):
    """Structural signature: the term with leaves replaced by their sort and scalars by 's'."""
    op = t[0]
    if op == "leaf":
        return {"A": "bop", "A2": "bop", "H": "bopC", "C": "bop", "D": "bop", "I0": "sparse", "I1": "sparse", "Z": "zero", "As": "bop32"}.get(t[1], t[1])
    if op == "smul":
        return "s*%s" % shape_sig(t[2])
    if op == "muls":
        return "%s*s" % shape_sig(t[1])
    if op == "div":
        return "%s/s" % shape_sig(t[1])
    if op == "neg":
        return "-%s" % shape_sig(t[1])
    if op in ("T", "H"):
        return "%s.%s" % (shape_sig(t[1]), op)
    sym = {"add": "+", "sub": "-", "mul": "*", "matmul": "@", "iadd": "+=", "isub": "-="}[op]
    return "(%s%s%s)" % (shape_sig(t[1]), sym, shape_sig(t[2]))


def check_term(ctx, pool, t):
    sort = sort_of(t)
    try:
        ref = ref_eval(t, pool)
        well = True
    except Ill as e:
        well, why = False, str(e)
    case = {"term": _to_json(t), "text": show(t)}
    sig = "%s/%s" % ("well-typed" if well else "ill-typed", shape_sig(t))
    try:
        obj = lib_eval(t, pool)
        built = True
    except Exception as exc:  # noqa: BLE001
        built, err = False, exc
    ctx.case(show(t), sub=("well-typed" if well else "ill-typed"), nontrivial=True,
             sample=case if (len(ctx.samples) < 5 and nodes(t) == 2 and not well) else None)
    ctx.cover("productions", (t[0], sort, well))
    if not well:
        if not built:
            return
        if isinstance(obj, type) and issubclass(obj, BaseException) or isinstance(obj, BaseException) or obj is NotImplemented:
            ctx.violation(sig + "/returned-exception-object", case, "%s evaluates to %r instead of raising (%s)" % (show(t), obj, why))
            return
        try:
            nums = observe(sort, obj, pool)
        except Exception:  # noqa: BLE001
            return  # rejected lazily: no numbers produced
        ctx.violation(sig + "/accepted", case, "%s is ill typed (%s) but produced numbers" % (show(t), why))
        return
    if not built:
        ctx.violation(sig + "/rejected:%s" % type(err).__name__, case, "%s is well typed but raised %r" % (show(t), err))
        return
    try:
        nums = observe(ref[0], obj, pool)
    except NotImplementedError as exc:
        # .T/.H of composite or inverse/zero operators fall back to scipy's generic transpose, which needs an rmatvec the
        # library does not provide: documented only for dense, sparse, diagonal and rank-one operators (and what they return)
        if _has_generic_transpose(t):
            ctx.declined += 1
            return
        ctx.violation(sig + "/evaluation-failed:%s" % type(exc).__name__, case, "%s is well typed but evaluating it raised %r" % (show(t), exc))
        return
    except Exception as exc:  # noqa: BLE001
        ctx.violation(sig + "/evaluation-failed:%s" % type(exc).__name__, case, "%s is well typed but evaluating it raised %r" % (show(t), exc))
        return
    exp = expected(ref[0], ref)
    scale = magnitude(t, pool)
    for key, want in exp.items():
        got = nums[key]
        sc = scale * (want.shape[0] if key in ("complex-matvec", "matmat") else 1.0) if want.ndim else scale
        ctx.check_close(sig + "/" + key, case, got, want, SINGLE_TOL if _has_leaf(t, "As") else TOL, "algebra:" + key, scale=max(sc, 1e-300))
    # a real-typed result is only wrong where the represented matrix has an imaginary part (an identically zero product may keep a real dtype)
    if ref[0] in ("bop", "blk", "disc") and not np.iscomplexobj(nums["dense"]) and np.iscomplexobj(ref[2]) and np.any(np.imag(ref[2]) != 0):
        ctx.violation(sig + "/dtype", case, "complex operands gave a real matrix")


SINGLE_TOL = 2e-5


def _has_leaf(t, name):
    if t[0] == "leaf":
        return t[1] == name
    return any(_has_leaf(x, name) for x in t[1:] if isinstance(x, tuple))


TRANSPOSABLE = {"Dr", "Dc", "Sp", "Dg", "R1", "Rect"}


def _has_generic_transpose(t):
    """True if the term contains a .T/.H whose operand is not a (scaled/negated) dense, sparse, diagonal or rank-one leaf."""
    if t[0] == "leaf":
        return False
    if t[0] in ("T", "H"):
        x = t[1]
        while x[0] in ("T", "H"):
            x = x[1]
        if x[0] == "leaf" and x[1] in TRANSPOSABLE:
            return _has_generic_transpose(x)
        if x[0] in ("neg", "smul", "muls"):
            y = x[2] if x[0] == "smul" else x[1]
            if y[0] == "leaf" and y[1] in ("Dr", "Dc", "Sp", "Dg"):
                return False
        return True
    return any(_has_generic_transpose(x) for x in t[1:] if isinstance(x, tuple))


def _to_json(t):
    return [(_to_json(x) if isinstance(x, tuple) else x) for x in t]


def _from_json(t):
    return tuple(_from_json(x) if isinstance(x, list) else x for x in t)


# ---------------------------------------------------------------------------
# blocked-operator construction: explicit-state search over assignment histories
# ---------------------------------------------------------------------------
def blocked_assignment_history(ctx, pool, hist):
    """Replay one history of blk[i, j] = op assignments on a fresh 2x2 BlockedOperator against the typed model."""
    bem = pool.bem
    blk = bem.BlockedOperator(2, 2)
    rows = [None, None]   # (range, dual) fixed by the first accepted assignment in the row (re-set by every accepted one)
    cols = [None, None]
    cells = {}
    case = {"sub": "blocked-assignment", "history": [list(h) for h in hist]}
    for step, (i, j, nm) in enumerate(hist):
        d, r, du = pool.ref[nm][1]
        ok = (rows[i] is None or rows[i] == (r, du)) and (cols[j] is None or cols[j] == d)
        try:
            blk[i, j] = pool.lib[nm]
            raised = None
        except ValueError as exc:
            raised = exc
        except Exception as exc:  # noqa: BLE001
            ctx.violation("blocked-assignment/exception:%s" % type(exc).__name__, case, "step %d raised %r" % (step, exc))
            return None
        if ok and raised is not None:
            ctx.violation("blocked-assignment/rejected", case, "step %d: blk[%d,%d] = %s is compatible with the spaces fixed so far but raised %r" % (step, i, j, nm, raised))
            return None
        if not ok and raised is None:
            ctx.violation("blocked-assignment/accepted", case, "step %d: blk[%d,%d] = %s conflicts with the spaces fixed by earlier entries but was accepted" % (step, i, j, nm))
            return None
        if raised is None:
            rows[i], cols[j] = (r, du), d
            cells[(i, j)] = nm
            ctx.cover("blocked_assignments_accepted", None)
        else:
            ctx.cover("blocked_assignments_rejected", None)
    complete = all(rw is not None for rw in rows) and all(c is not None for c in cols)
    if complete:
        layout = [[cells.get((i, j)) for j in range(2)] for i in range(2)]
        want = pool._blk_ref(layout)
        try:
            got = np.asarray(blk.weak_form().to_dense())
            for (i, j) in [(a, b) for a in range(2) for b in range(2)]:
                comp = blk[i, j]
                cd, cr, cdu = (cols[j], rows[i][0], rows[i][1])
                if not (comp.domain.is_compatible(pool.S[cd]) and comp.range.is_compatible(pool.S[cr]) and comp.dual_to_range.is_compatible(pool.S[cdu])):
                    ctx.violation("blocked-assignment/component-spaces", case, "blk[%d,%d] reports spaces other than (%s,%s,%s)" % (i, j, cd, cr, cdu))
        except Exception as exc:  # noqa: BLE001
            ctx.violation("blocked-assignment/assembly:%s" % type(exc).__name__, case, "complete blocked operator raised %r" % (exc,))
            return (tuple(rows), tuple(cols), tuple(sorted(cells.items())))
        ctx.check_close("blocked-assignment/matrix", case, got, want[2], TOL, "algebra:blocked", scale=float(np.max(np.abs(want[2]))) or 1.0)
        ctx.cover("blocked_complete_assembled", None)
    else:
        try:
            blk.weak_form()
            ctx.violation("blocked-assignment/incomplete-accepted", case, "a blocked operator with an empty row or column produced a weak form")
        except ValueError:
            pass
        except Exception as exc:  # noqa: BLE001
            ctx.violation("blocked-assignment/incomplete:%s" % type(exc).__name__, case, "incomplete blocked operator raised %r instead of ValueError" % (exc,))
    return (tuple(rows), tuple(cols), tuple(sorted(cells.items())))


def blocked_construction(ctx, pool, depth):
    import collections

    events = [(i, j, nm) for i in range(2) for j in range(2) for nm in LEAVES["bop"]]
    seen = set()
    frontier = collections.deque([()])
    while frontier:
        hist = frontier.popleft()
        if len(hist) >= depth:
            continue
        for ev in events:
            h2 = hist + (ev,)
            canon = blocked_assignment_history(ctx, pool, h2)
            ctx.transitions += 1
            ctx.case(("blk-assign", h2), sub="blocked-assignment")
            if canon is None or canon in seen:
                continue
            seen.add(canon)
            ctx.states += 1
            frontier.append(h2)
    # generalized blocked operators: every 2x2 arrangement of pool operators
    import itertools

    bem = pool.bem
    names = LEAVES["bop"]
    for a, b, c, d in itertools.product(names, repeat=4):
        layout = [[a, b], [c, d]]
        t = {k: pool.ref[k][1] for k in (a, b, c, d)}
        ok = (t[a][1:] == t[b][1:] and t[c][1:] == t[d][1:] and t[a][0] == t[c][0] and t[b][0] == t[d][0])
        case = {"sub": "generalized-blocked", "layout": layout}
        try:
            G = bem.GeneralizedBlockedOperator([[pool.lib[a], pool.lib[b]], [pool.lib[c], pool.lib[d]]])
            M = np.asarray(G.weak_form().to_dense()) if ok else None
            if not ok:
                # lazily rejected is fine; numbers are not
                try:
                    np.asarray(G.weak_form().to_dense())
                    ctx.violation("generalized-blocked/accepted", case, "incompatible arrangement produced a matrix")
                except Exception:  # noqa: BLE001
                    pass
        except ValueError as exc:
            if ok:
                ctx.violation("generalized-blocked/rejected", case, "compatible arrangement raised %r" % (exc,))
            ctx.cover("generalized_rejected", None)
            ctx.transitions += 1
            ctx.case(("gen-blk", a, b, c, d), sub="generalized-blocked")
            continue
        except Exception as exc:  # noqa: BLE001
            ctx.violation("generalized-blocked/exception:%s" % type(exc).__name__, case, repr(exc))
            continue
        ctx.transitions += 1
        ctx.case(("gen-blk", a, b, c, d), sub="generalized-blocked")
        if ok:
            want = pool._blk_ref(layout)[2]
            ctx.check_close("generalized-blocked/matrix", case, M, want, TOL, "algebra:generalized-blocked", scale=float(np.max(np.abs(want))) or 1.0)
            ctx.cover("generalized_accepted", None)


def run(ctx):
    quick = ctx.tier == "quick"
    pool = Pool(ctx.seed)
    blocked_construction(ctx, pool, 2 if quick else 3)
    ctx.require(ctx.cov.get("blocked_assignments_rejected", 0) > 0 and ctx.cov.get("blocked_complete_assembled", 0) > 0 and
                ctx.cov.get("generalized_accepted", 0) > 0 and ctx.cov.get("generalized_rejected", 0) > 0,
                "blocked construction: accepted, rejected and assembled cases all present")
    scalars = SCALARS if not quick else SCALARS[:4]
    ts = terms(2 if quick else 2, scalars)
    if not quick:
        # three operator nodes: restrict scalars to two representatives to keep the space finite and covered
        ts3 = [t for t in terms(3, SCALARS[:2]) if nodes(t) == 3]
        ts = ts + ts3
    seen = set()
    for t in ts:
        key = show(t)
        if key in seen:
            continue
        seen.add(key)
        check_term(ctx, pool, t)
        ctx.states += 1
        ctx.transitions += 1
    ctx.traces_validated = ctx.transitions
    prods = ctx.cov.get("productions", set())
    for p in ("add", "mul", "smul", "neg"):
        ctx.require(any(x[0] == p and x[2] for x in prods) , "well-typed term for production %s" % p)
    ctx.require(any(x[0] == "add" and not x[2] for x in prods) and any(x[0] == "mul" and not x[2] for x in prods), "ill-typed terms for + and *")
    ctx.assumptions += ["typing rules of DESIGN B.2: spaces are 'the same' iff created from the same (kind, selection, options) on the same grid",
                        "ill-typed terms may be rejected at construction or lazily at weak_form(); a violation is producing numbers or returning an exception object"]
    return ctx.finish(rule="all terms with <=2 (thorough: 3) operator nodes over the pool {8 boundary operators, 4 blocked, 8 discrete, 4 grid functions, "
                      "4 potential operators, 7 scalars} and the productions + - neg s* *s * @ / .T .H apply; each executed with the real objects and "
                      "compared with the typed dense-matrix interpreter; distinct = distinct terms")


def replay(ctx, case):
    pool = Pool(ctx.seed)
    if case.get("sub") == "blocked-assignment":
        blocked_assignment_history(ctx, pool, [tuple(h) for h in case["history"]])
        return
    if case.get("sub") == "generalized-blocked":
        blocked_construction(ctx, pool, 0)
        return
    check_term(ctx, pool, _from_json(case["term"]))
