"""C10 - barycentric and dual-grid spaces represent the functions they claim to."""

import numpy as np

from bex import spaces as SP
from bex.models import basis_ref as B
from bex.models import meshes
from bex.models import topo_ref as R
from bex.checks import c09

LEVEL = "exploration"
TOL = 1e-11

# local points inside a sub-triangle (not on its boundary) + its three vertices
SUB_PTS = np.array([[1 / 3, 1 / 3], [0.6, 0.2], [0.2, 0.6], [0.2, 0.2], [0.0, 0.0], [1.0, 0.0], [0.0, 1.0]]).T


def _phys(v, e, t, loc):
    p0, p1, p2 = (v[:, int(e[k, t])] for k in range(3))
    return p0[:, None] + np.outer(p1 - p0, loc[0]) + np.outer(p2 - p0, loc[1])


def _to_local(v, e, t, X):
    """Local coordinates in element t of physical points X (3,P), solved from the geometry."""
    p0, p1, p2 = (v[:, int(e[k, t])] for k in range(3))
    J = np.column_stack([p1 - p0, p2 - p0])
    xi, res, *_ = np.linalg.lstsq(J, X - p0[:, None], rcond=None)
    if np.max(np.abs(J @ xi - (X - p0[:, None]))) > 1e-10 * (1 + np.abs(J).max()):
        raise RuntimeError("sub-triangle point not in the plane of its parent")
    if xi.min() < -1e-10 or (xi[0] + xi[1]).max() > 1 + 1e-10:
        raise RuntimeError("sub-triangle point outside its parent")
    return np.clip(xi, 0.0, 1.0)


def _functions_at(space, per_element_pts):
    """{element: (c, P, ndof)} of all global functions at element specific local points."""
    T = SP.dense_dof_transformation(space)
    l2g = space.local2global
    out = {}
    for t, pts in per_element_pts.items():
        vals = np.asarray(space.evaluate(int(t), np.ascontiguousarray(pts)))
        out[t] = np.einsum("cip,ij->cpj", vals, T[l2g[int(t)].astype(np.int64), :])
    return out


def check_bary_representation(ctx, meshname, mesh, grid, spec):
    case = {"sub": "bary-representation", "mesh": meshname, "space": SP.spec_json(spec)}
    sig = "bary-representation/%s/sel=%s" % (spec["kind"], spec["sel"][0])
    try:
        space = SP.make_space(grid, spec)
        bspace = space.barycentric_representation()
    except Exception as exc:  # noqa: BLE001
        ctx.violation(sig + "/exception:" + type(exc).__name__, case, repr(exc))
        return
    if int(space.global_dof_count) != int(bspace.global_dof_count):
        ctx.violation(sig + "/dof-count", case, "barycentric representation has %d dofs, space %d" % (bspace.global_dof_count, space.global_dof_count))
        return
    if c09_empty(mesh, spec):
        ctx.declined += 1
        return
    v, e, d = mesh
    bv, be, bd = SP.mesh_of_grid(bspace.grid)
    sup = np.asarray(space.support, dtype=bool)
    bsup = np.asarray(bspace.support, dtype=bool)
    worst = 0.0
    worst_where = None
    for t in np.flatnonzero(sup):
        t = int(t)
        for k in range(6):
            c = 6 * t + k
            X = _phys(bv, be, c, SUB_PTS)
            xi = _to_local(v, e, t, X)
            coarse = _functions_at(space, {t: xi})[t]
            if bsup[c]:
                fine = _functions_at(bspace, {c: SUB_PTS})[c]
            else:
                fine = np.zeros_like(coarse)
            err = float(np.max(np.abs(coarse - fine))) if coarse.size else 0.0
            if err > worst:
                worst, worst_where = err, (t, k)
            ctx.case((meshname, SP.spec_key(spec), t, k), sub="bary-subtriangle")
    # outside the coarse support the barycentric representation must vanish
    for c in np.flatnonzero(bsup):
        if not sup[int(c) // 6]:
            fine = _functions_at(bspace, {int(c): SUB_PTS})[int(c)]
            worst = max(worst, float(np.max(np.abs(fine))))
    scale = 1.0
    if spec["kind"] in ("RWG", "SNC"):
        scale = float(1.0 / np.min(R.geometry(v, e)["diameters"])) * 4
    ctx.observe("bary-vs-coarse", worst / scale, TOL)
    if worst > TOL * scale:
        ctx.violation(sig + "/pointwise", dict(case, where=worst_where),
                      "coarse function and barycentric representation differ by %.3e on sub-triangle %s" % (worst, worst_where))


def c09_empty(mesh, spec):
    S = B.selection(mesh, spec.get("sel", ("all",)))
    k = spec["kind"]
    if k in ("P1", "DUAL0"):
        return len(B.p1_expected(mesh, S, bool(spec.get("inc")), bool(spec.get("trunc")))[0]) == 0
    if k in ("RWG", "SNC", "BC", "RBC"):
        return len(B.rwg_expected(mesh, S, bool(spec.get("inc")), bool(spec.get("trunc")))[0]) == 0
    return False


def _classify_bary_vertices(mesh, bmesh):
    """For every vertex of the barycentric grid: ('v', p) | ('c', t) | ('m', frozenset edge)."""
    v, e, d = mesh
    bv = bmesh[0]
    g = R.geometry(v, e)
    out = []
    ue = R.undirected_edges(e)
    mids = {k: (v[:, min(k)] + v[:, max(k)]) / 2 for k in ue}
    for q in range(bv.shape[1]):
        x = bv[:, q]
        hit = None
        for p in range(v.shape[1]):
            if np.max(np.abs(v[:, p] - x)) < 1e-12:
                hit = ("v", p)
        for t in range(e.shape[1]):
            if np.max(np.abs(g["centroids"][t] - x)) < 1e-12:
                hit = ("c", t)
        for k, m in mids.items():
            if np.max(np.abs(m - x)) < 1e-12:
                hit = ("m", k)
        if hit is None:
            raise RuntimeError("barycentric vertex %d is neither vertex, centroid nor edge midpoint" % q)
        out.append(hit)
    return out


def check_dual1_nodal(ctx, meshname, mesh, grid, spec):
    case = {"sub": "dual1-nodal", "mesh": meshname, "space": SP.spec_json(spec)}
    sig = "dual1-nodal/sel=%s/trunc=%s" % (spec["sel"][0], spec.get("trunc"))
    try:
        space = SP.make_space(grid, spec)
    except Exception as exc:  # noqa: BLE001
        ctx.violation(sig + "/exception:" + type(exc).__name__, case, repr(exc))
        return
    v, e, d = mesh
    S = B.selection(mesh, spec.get("sel", ("all",)))
    bmesh = SP.mesh_of_grid(space.grid)
    bv, be, bd = bmesh
    cls = _classify_bary_vertices(mesh, bmesh)
    star = R.vertex_star(e, v.shape[1])
    F = SP.global_functions(space, B.LOCAL_PTS[:, :3])
    sel = [int(t) for t in np.flatnonzero(S)]
    ndof = int(space.global_dof_count)
    if ndof != len(sel):
        ctx.violation(sig + "/dof-count", case, "%d dofs for %d elements" % (ndof, len(sel)))
        return
    trunc = bool(spec.get("trunc"))
    worst = 0.0
    for j, tj in enumerate(sel):  # dofs numbered by increasing element index (DP0 of the selection)
        tri = set(R.tri(e, tj))
        edges = {frozenset((R.tri(e, tj)[a], R.tri(e, tj)[b])) for a, b in R.EDGE_LOCAL}
        for c in range(be.shape[1]):
            parent = c // 6
            in_support = (S[parent] if trunc else True)
            for i in range(3):
                kind, ent = cls[int(be[i, c])]
                if kind == "v":
                    exp = 1.0 / len(star[ent]) if ent in tri else 0.0
                elif kind == "m":
                    exp = 0.5 if ent in edges else 0.0
                else:
                    exp = 1.0 if ent == tj else 0.0
                if not in_support:
                    exp = 0.0
                # a function is only defined where its support reaches: nodes of sub-triangles that do not touch t_j's closure are 0
                if parent != tj and not (set(R.tri(e, parent)) & tri):
                    exp = 0.0
                got = F[c][0, i, j] if c in F else 0.0
                worst = max(worst, abs(got - exp))
        ctx.case((meshname, SP.spec_key(spec), j), sub="dual1-dof")
    ctx.observe("dual1-nodal", worst, TOL)
    if worst > TOL:
        ctx.violation(sig + "/values", case, "a DUAL1 nodal value differs from 1 / 1/2 / 1/n by %.3e" % worst)


def check_dual0_cells(ctx, meshname, mesh, grid, spec):
    # DUAL0 = indicator of the dual cell: the detailed check lives in C09 (attachment / dual-cell); reuse it here
    c09.check_space(ctx, meshname, mesh, grid, spec)


PAIRS = [("P1", "DUAL0"), ("DP0", "DUAL1"), ("DP0", "DUAL0"), ("P1", "DUAL1"), ("RWG", "RBC"), ("SNC", "BC"), ("RWG", "BC"),
         ("SNC", "RBC")]


def check_mixed_mass(ctx, meshname, mesh, grid, primal, dual, sel):
    import bempp_cl.api as bem

    case = {"sub": "mixed-mass", "mesh": meshname, "primal": primal, "dual": dual, "sel": [sel[0]] + ([list(sel[1])] if len(sel) > 1 else [])}
    sig = "mixed-mass/%s-%s/sel=%s" % (primal, dual, sel[0])
    v, e, d = mesh
    closed = R.is_closed_manifold(e)
    pspec = {"kind": primal, "sel": sel, "inc": True if primal in ("P1",) else (None if primal in ("DP0",) else (closed is False and False)),
             "trunc": None if primal == "DP0" else True}
    if primal in ("RWG", "SNC"):
        pspec["inc"] = False
    dspec = {"kind": dual, "sel": sel, "inc": None if dual == "DUAL1" else False, "trunc": None if dual == "DUAL1" else False}
    if dual == "DUAL0":
        dspec["inc"] = True
    if c09_empty(mesh, pspec) or c09_empty(mesh, dspec):
        ctx.declined += 1  # selections without any dof entity are the business of C09 (recorded finding there)
        return
    try:
        ps = SP.make_space(grid, pspec)
        ds = SP.make_space(grid, dspec)
    except Exception as exc:  # noqa: BLE001
        if c09.REFUSAL_STAR in str(exc) or c09.REFUSAL_BC_SCREEN in str(exc):
            ctx.declined += 1
            return
        ctx.violation(sig + "/exception:" + type(exc).__name__, case, repr(exc))
        return
    if c09_empty(mesh, pspec) or c09_empty(mesh, dspec):
        ctx.declined += 1
        return
    try:
        M = bem.operators.boundary.sparse.identity(ps, ps, ds).weak_form().to_dense()
    except Exception as exc:  # noqa: BLE001
        ctx.violation(sig + "/assemble/exception:" + type(exc).__name__, case, repr(exc))
        return
    M = np.asarray(M)
    bmesh = SP.mesh_of_grid(ds.grid)
    bv, be, bd = bmesh
    lam, w = B.tri_rule_deg4()
    loc = np.vstack([lam[1], lam[2]])
    ref = np.zeros((int(ds.global_dof_count), int(ps.global_dof_count)))
    bg = R.geometry(bv, be)
    psup = np.asarray(ps.support, dtype=bool)
    for c in np.flatnonzero(np.asarray(ds.support, dtype=bool)):
        c = int(c)
        t = c // 6
        if not psup[t]:
            continue
        X = _phys(bv, be, c, loc)
        xi = _to_local(v, e, t, X)
        fp = _functions_at(ps, {t: xi})[t]  # (cdim, P, np)
        fd = _functions_at(ds, {c: loc})[c]  # (cdim, P, nd)
        ref += bg["volumes"][c] * np.einsum("p,cpi,cpj->ij", w, fd, fp)
    ctx.case((meshname, primal, dual, repr(sel)), sub="mixed-mass", sample=case if len(ctx.samples) < 3 else None)
    ctx.check_close(sig, case, M, ref, TOL, "mixed-mass")


def bary_specs(mesh):
    v, e, d = mesh
    doms = sorted(set(d.tolist()))
    sels = [("all",)] + ([("segments", (doms[0],)), ("segments", tuple(doms[1:]))] if len(doms) > 1 else [])
    M = e.shape[1]
    if M >= 4:
        sels.append(("elements", tuple(range(1, M, 2))))
    for sel in sels:
        for kind in ("DP0", "P1", "RWG", "SNC"):
            for inc, trunc in SP.option_variants(kind):
                yield {"kind": kind, "sel": sel, "inc": inc, "trunc": trunc, "swapped": ()}


def run(ctx):
    quick = ctx.tier == "quick"
    names = ["fan5", "screen2x2", "tet", "octa", "cube12"] if quick else \
        ["edge2", "fan4", "fan5", "screen2x2", "screen3x3", "tet", "octa", "prism8", "cube12", "torus18", "lshape28", "twotet"]
    for name in names:
        mesh = meshes.get(name, ctx.seed)
        grid = SP.make_grid(mesh)
        for spec in bary_specs(mesh):
            check_bary_representation(ctx, name, mesh, grid, spec)
        doms = sorted(set(mesh[2].tolist()))
        sels = [("all",)] + ([("segments", (doms[0],))] if len(doms) > 1 else [])
        for sel in sels:
            for trunc in (False, True):
                check_dual1_nodal(ctx, name, mesh, grid, {"kind": "DUAL1", "sel": sel, "inc": None, "trunc": trunc})
            for primal, dual in PAIRS:
                check_mixed_mass(ctx, name, mesh, grid, primal, dual, sel)
    ctx.require(ctx.sub.get("mixed-mass", 0) >= 8, "mixed mass matrices assembled")
    ctx.assumptions += ["sub-triangle -> coarse local coordinates are solved from the geometry of grid.barycentric_refinement, not from the 6e+j table",
                        "DUAL0 dual-cell indicator property is decided in C09 (attachment/dual-cell)"]
    return ctx.finish(
        rule="mesh x {DP0,P1,RWG,SNC} x {whole, segment, complementary segment, alternating elements} x option combinations: "
        "coarse function vs barycentric representation at 7 points of each of the 6 sub-triangles of every support element, "
        "for all unit coefficient vectors; DUAL1 nodal values at every barycentric node; 8 primal/dual mass matrices against "
        "a degree-4 exact rule on the barycentric sub-triangles; distinct = distinct (mesh, space, element, sub-triangle) / matrix",
    )


def replay(ctx, case):
    mesh = meshes.get(case["mesh"], ctx.seed)
    grid = SP.make_grid(mesh)
    if case["sub"] == "bary-representation":
        check_bary_representation(ctx, case["mesh"], mesh, grid, SP.spec_from_json(case["space"]))
    elif case["sub"] == "dual1-nodal":
        check_dual1_nodal(ctx, case["mesh"], mesh, grid, SP.spec_from_json(case["space"]))
    else:
        sel = case["sel"]
        check_mixed_mass(ctx, case["mesh"], mesh, grid, case["primal"], case["dual"], (sel[0],) + ((tuple(sel[1]),) if len(sel) > 1 else ()))
