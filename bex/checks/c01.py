"""C01 - Laplace Calderon identities on closed polyhedra (E1 lattice sweep)."""

import itertools

import numpy as np

from bex import ops
from bex import spaces as SP
from bex.models import meshes
from bex.models import topo_ref as R

LEVEL = "exploration"


def transforms(mesh, which):
    v, e, d = mesh
    M, N = e.shape[1], v.shape[1]
    if which == "id":
        return mesh
    if which == "scale1e-3":
        return meshes.transform(mesh, s=1e-3)
    if which == "scale1e3":
        return meshes.transform(mesh, s=1e3)
    if which == "translate":
        return meshes.transform(mesh, t=(1e2, -50.0, 25.0))
    if which == "rotate":
        return meshes.transform(mesh, A=meshes.rotation((0.3, -0.5, 0.8), 1.1))
    if which == "rev-elements":
        return meshes.perm_elements(mesh, np.arange(M)[::-1])
    if which == "rev-vertices":
        return meshes.perm_vertices(mesh, np.arange(N)[::-1])
    if which == "local-rot1":
        return meshes.rotate_local(mesh, [1] * M)
    if which == "local-rot-alt":
        return meshes.rotate_local(mesh, [(j % 3) for j in range(M)])
    if which == "relabel-mix":
        m = meshes.rotate_local(mesh, [((2 * j + 1) % 3) for j in range(M)])
        m = meshes.perm_elements(m, np.roll(np.arange(M), 3))
        return meshes.perm_vertices(m, np.roll(np.arange(N), 2))
    if which.startswith("rotvec:"):
        return meshes.rotate_local(mesh, [int(c) for c in which.split(":")[1]])
    raise ValueError(which)


def edge_classes(e):
    edge_adj, vertex_adj, _ = R.adjacency(e)
    ec = set()
    for (i, j), pairs in edge_adj.items():
        (a0, b0), (a1, b1) = sorted(pairs, key=lambda p: p[1])
        ec.add((a0, a1, b0, b1))
    return ec, set(vertex_adj.values())


def residuals(mesh, r, s):
    """Return (res1, res2, scales, detail) for the four affine basis functions."""
    v, e, d = mesh
    grid = SP.make_grid(mesh)
    p1 = SP.make_space(grid, {"kind": "P1"})
    p0 = SP.make_space(grid, {"kind": "DP0"})
    par = ops.params(r, s)
    V = ops.dense(ops.boundary("laplace", "single_layer", p0, p0, p0, par=par))
    K = ops.dense(ops.boundary("laplace", "double_layer", p1, p0, p0, par=par))
    Mm = ops.dense(ops.boundary("sparse", "identity", p1, p0, p0, par=par))
    W = ops.dense(ops.boundary("laplace", "hypersingular", p1, p1, p1, par=par))
    Kt = ops.dense(ops.boundary("laplace", "adjoint_double_layer", p0, p1, p1, par=par))
    Mt = ops.dense(ops.boundary("sparse", "identity", p0, p1, p1, par=par))
    normals = R.geometry(v, e)["normals"]
    L = float(np.max(np.ptp(v, axis=1)))
    c = v.mean(axis=1)
    out = []
    for a, b in [((0, 0, 0), 1.0), ((1, 0, 0), 0.0), ((0, 1, 0), 0.0), ((0, 0, 1), 0.0)]:
        a = np.array(a, dtype=float)
        g = a @ v + b  # dof v == vertex v (C09 asserts the identity numbering)
        psi = normals @ a
        r1 = (0.5 * Mm + K) @ g - V @ psi
        s1 = ops.absmv(0.5 * Mm, g) + ops.absmv(K, g) + ops.absmv(V, psi)
        r2 = W @ g - (0.5 * Mt - Kt) @ psi
        s2 = ops.absmv(W, g) + ops.absmv(0.5 * Mt, psi) + ops.absmv(Kt, psi)
        out.append((float(np.linalg.norm(r1) / np.linalg.norm(s1)), float(np.linalg.norm(r2) / np.linalg.norm(s2))))
    return out


def plan(ctx):
    quick = ctx.tier == "quick"
    if quick:
        ms = ["tet", "cube12", "lshape28", "frame64"]
        orders = [(6, 6), (10, 8), (12, 10)]
        tr = {m: ["id", "scale1e-3", "translate", "rotate", "relabel-mix"] for m in ms}
        tr["tet"] = tr["tet"] + ["local-rot1", "rev-elements"]
    else:
        ms = ["tet", "octa", "prism8", "cube12", "lshape28", "ushape", "frame64", "twocubes", "twotet", "cavity", "tet^", "octa^", "cube3"]
        orders = [(r, s) for r in (6, 8, 10, 12) for s in (6, 8, 10)]
        base = ["id", "scale1e-3", "scale1e3", "translate", "rotate", "rev-elements", "rev-vertices", "local-rot1", "local-rot-alt", "relabel-mix"]
        tr = {m: list(base) for m in ms}
        tr["tet"] = base + ["rotvec:%s" % "".join(map(str, c)) for c in itertools.product(range(3), repeat=4) if any(c)]
        for big in ("cube3", "cavity"):
            tr[big] = ["id", "translate", "relabel-mix"]
    return ms, orders, tr


def run_case(ctx, name, t, r, s, classes=None):
    mesh = transforms(meshes.get(name, ctx.seed), t)
    if classes is not None:
        ec, vc = edge_classes(mesh[1])
        classes[0] |= ec
        classes[1] |= vc
    case = {"mesh": name, "transform": t, "regular": r, "singular": s}
    try:
        res = residuals(mesh, r, s)
    except Exception as exc:  # noqa: BLE001
        ctx.violation("calderon/exception:%s" % type(exc).__name__, case, repr(exc))
        return None
    high = r >= 12 and s >= 10
    mid = r >= 10 and s >= 8
    thr = 1e-6 if high else (1e-5 if mid else 5e-3)
    worst = max(max(x) for x in res)
    ctx.case((name, t, r, s), sub="calderon", sample=dict(case, residuals=res) if (len(ctx.samples) < 3 and t != "id") else None)
    ctx.observe("residual(r>=12,s>=10)" if high else ("residual(r>=10,s>=8)" if mid else "residual(low orders)"), worst, thr)
    for (r1, r2), u in zip(res, ("1", "x", "y", "z")):
        for which, val in (("first", r1), ("second", r2)):
            if not val <= thr:
                ctx.violation("calderon/%s-identity/%s" % (which, "high-order" if high else ("mid-order" if mid else "low-order")),
                              dict(case, u=u, residual=val), "%s Calderon identity residual %.3e > %.0e for u=%s" % (which, val, thr, u))
    return worst


def run(ctx):
    ms, orders, tr = plan(ctx)
    classes = [set(), set()]
    ladder = {}
    for name in ms:
        v, e, d = meshes.get(name, ctx.seed)
        if not (R.is_closed_manifold(e) and R.is_consistently_oriented(e) and R.signed_volume(v, e) > 0):
            raise RuntimeError("catalogue mesh %s is not a closed outward oriented surface" % name)
        ctx.cover("meshes", name)
        ctx.cover("euler_characteristics", v.shape[1] - len(R.undirected_edges(e)) + e.shape[1])
        ctx.cover("components", R.components(e))
        for t in tr[name]:
            for r, s in orders:
                w = run_case(ctx, name, t, r, s, classes)
                if w is not None:
                    ladder[(name, t, r, s)] = w
    # the residual must not grow when orders are raised from the lowest to the highest of the lattice
    lo, hi = orders[0], orders[-1]
    for name in ms:
        for t in tr[name]:
            a, b = ladder.get((name, t) + lo), ladder.get((name, t) + hi)
            if a is not None and b is not None and b > a and b > 1e-9:
                ctx.violation("calderon/no-convergence", {"mesh": name, "transform": t, "regular": hi[0], "singular": hi[1]},
                              "residual %.2e at %s exceeds %.2e at %s" % (b, hi, a, lo))
    ctx.cov["edge_adjacency_classes"] = len(classes[0])
    ctx.cov["vertex_adjacency_classes"] = len(classes[1])
    # on consistently oriented surfaces the shared edge is traversed in opposite directions, which leaves 9 of the 18
    # (test remap, trial remap) classes reachable; the other 9 need orientation flips and are covered by C03/C04
    ctx.require(len(classes[0]) == 9, "all 9 edge remap classes reachable on oriented surfaces realised: %d" % len(classes[0]))
    ctx.require(len(classes[1]) == 9, "all 9 vertex remap classes realised: %d" % len(classes[1]))
    ctx.assumptions += [
        "residual normalised by the norm of the summed absolute term magnitudes (backward-error scale): translation-robust, "
        "equals the right-hand-side norm up to a moderate factor",
        "QUAD thresholds: 1e-6 at regular>=12 & singular>=10, 1e-5 at regular>=10 & singular>=8, 5e-3 below (DESIGN 3.4)",
        "affine u covered exactly by linearity through the basis {1,x,y,z}",
    ]
    return ctx.finish(
        rule="lattice mesh x transformation x (regular,singular) order pair x {1,x,y,z}; six real operator assemblies per tuple; "
        "distinct = distinct (mesh, transformation, order pair)")


def replay(ctx, case):
    run_case(ctx, case["mesh"], case["transform"], case["regular"], case["singular"])
