"""C08 - potentials and far fields: closed-form kernel sums, PDEs by finite differences, far-field asymptotics (E1 sweep)."""

import numpy as np

from bex import ops
from bex import spaces as SP
from bex.models import meshes
from bex.models import topo_ref as R

LEVEL = "exploration"
TOL = 1e-11
FD = 1e-5

POINTS = np.array([[2.1, 0.3, 0.4], [0.5, 0.55, 3.0], [-1.0, -1.2, -0.7], [0.3, -2.0, 0.15], [1.5, 1.6, 1.4], [-0.8, 2.3, 0.9]]).T


def directions(n):
    d = []
    for i in range(n):
        z = 1 - 2 * (i + 0.5) / n
        ph = i * 2.399963229728653
        r = np.sqrt(1 - z * z)
        d.append([r * np.cos(ph), r * np.sin(ph), z])
    return np.array(d).T


def cloud(mesh, space, r):
    """Library quadrature points: (points (3,Q), weights*J (Q,), normals (3,Q), basis values (c,Q,ndof))."""
    from bempp_cl.api.integration import triangle_gauss

    v, e, d = mesh
    loc, w = triangle_gauss.rule(r)
    loc = np.asarray(loc, dtype=float)
    w = np.asarray(w, dtype=float)
    F = SP.global_functions(space, loc)
    g = R.geometry(v, e)
    nm = np.asarray(space.normal_multipliers)
    P, W, N, V = [], [], [], []
    for t in sorted(F):
        p0, p1, p2 = (v[:, int(e[k, t])] for k in range(3))
        X = p0[:, None] + np.outer(p1 - p0, loc[0]) + np.outer(p2 - p0, loc[1])
        P.append(X)
        W.append(w * g["integration_elements"][t])
        N.append(np.repeat((g["normals"][t] * nm[t])[:, None], len(w), axis=1))
        V.append(F[t])
    return np.hstack(P), np.concatenate(W), np.hstack(N), np.concatenate(V, axis=1)


def green(family, k, x, Y):
    d = x[:, None] - Y
    r = np.linalg.norm(d, axis=0)
    if family == "laplace":
        G = 1 / (4 * np.pi * r)
        dG = -1 / (4 * np.pi * r**2)  # dG/dr
    elif family in ("helmholtz", "maxwell"):
        G = np.exp(1j * k * r) / (4 * np.pi * r)
        dG = G * (1j * k - 1 / r)
    else:
        G = np.exp(-k * r) / (4 * np.pi * r)
        dG = G * (-k - 1 / r)
    gradx = dG * d / r  # gradient w.r.t. x
    return G, gradx


def reference_potential(family, name, k, x, cl, far=False):
    """Closed-form kernel sum at one point / direction x for every basis function: (ncomp, ndof)."""
    Y, W, N, V = cl
    if not far:
        G, gx = green(family, k, x, Y)
    else:
        ph = np.exp(-1j * k * (x @ Y)) / (4 * np.pi)
    if family != "maxwell":
        if not far:
            if name == "single_layer":
                ker = G
            else:
                ker = -np.einsum("cq,cq->q", N, gx)  # d/dn_y G = -n_y . grad_x G
        else:
            ker = ph if name == "single_layer" else (-1j * k * (x @ N)) * ph
        return np.einsum("q,q,qj->j", W, ker, V[0])[None, :]
    # Maxwell: V (3,Q,ndof); divergence of each basis function from its values is not available pointwise -> passed separately
    raise RuntimeError


def maxwell_reference(name, k, x, cl, div, far=False):
    Y, W, N, V = cl
    if not far:
        G, gx = green("maxwell", k, x, Y)
        if name == "electric_field":
            a = 1j * k * np.einsum("q,q,cqj->cj", W, G, V)
            b = -(1 / (1j * k)) * np.einsum("q,cq,qj->cj", W, gx, div)
            return a + b
        # H = int grad_x G x phi
        cr = np.cross(gx[:, :, None], V, axis=0)
        return np.einsum("q,cqj->cj", W, cr)
    ph = np.exp(-1j * k * (x @ Y)) / (4 * np.pi)
    if name == "electric_field":
        return 1j * k * np.einsum("q,q,cqj->cj", W, ph, V) - x[:, None] * np.einsum("q,q,qj->j", W, ph, div)[None, :]
    cr = np.cross(x[:, None, None] * np.ones((1, V.shape[1], 1)), V, axis=0)
    return 1j * k * np.einsum("q,q,cqj->cj", W, ph, cr)


def rwg_divergence(mesh, space, r):
    """Surface divergence of every basis function at the quadrature points (constant per element), from vertex values."""
    from bempp_cl.api.integration import triangle_gauss

    v, e, d = mesh
    nq = len(triangle_gauss.rule(r)[1])
    Fv = SP.global_functions(space, np.array([[0.0, 1.0, 0.0], [0.0, 0.0, 1.0]]))
    g = R.geometry(v, e)
    out = []
    for t in sorted(Fv):
        Gm = g["jit"][t] @ np.array([[-1.0, 1.0, 0.0], [-1.0, 0.0, 1.0]])
        dv = sum(Gm[:, i] @ Fv[t][:, i, :] for i in range(3))
        out.append(np.repeat(dv[None, :], nq, axis=0))
    return np.concatenate(out, axis=0)


def lib_matrix(pot, space):
    import bempp_cl.api as bem

    n = space.global_dof_count
    cols = []
    for j in range(n):
        cols.append(np.asarray(pot.evaluate(bem.GridFunction(space, coefficients=np.eye(n)[j]))))
    return np.array(cols)  # (ndof, ncomp, npts)


SCALAR = [("laplace", None), ("helmholtz", 0.9), ("helmholtz", 2.5), ("helmholtz", 1 + 0.5j), ("helmholtz", -0.7 + 0.2j), ("helmholtz", 0.6j), ("modified_helmholtz", 0.8)]
MAXK = [0.9, 1 + 0.5j]


def space_specs(mesh, vector):
    doms = sorted(set(mesh[2].tolist()))
    if vector:
        out = [{"kind": "RWG", "inc": True}]
        if len(doms) > 1:
            out += [{"kind": "RWG", "sel": ("segments", (doms[-1],)), "inc": True}, {"kind": "RWG", "swapped": (doms[0],), "inc": True}]
        return out
    out = [{"kind": "DP0"}, {"kind": "P1", "inc": True}, {"kind": "DP1"}]
    if len(doms) > 1:
        out += [{"kind": "P1", "sel": ("segments", (doms[-1],)), "inc": True}, {"kind": "DP0", "swapped": (doms[0],)},
                {"kind": "P1", "inc": True, "swapped": (doms[-1],)}]
    return out


def check_kernel_sums(ctx, name, quick):
    import bempp_cl.api as bem

    mesh = meshes.get(name, ctx.seed)
    grid = SP.make_grid(mesh)
    pts = POINTS + np.array([[0.01 * (ctx.seed % 7)], [0.0], [0.0]])
    dirs = directions(6 if quick else 12)
    for r in ([1, 4] if quick else [1, 3, 4, 7]):
        par = ops.params(r, 4)
        for spec in space_specs(mesh, False):
            sp = SP.make_space(grid, dict({"sel": ("all",)}, **spec))
            cl = cloud(mesh, sp, r)
            for family, k in SCALAR:
                if quick and (family, k) in (("helmholtz", 2.5), ("helmholtz", -0.7 + 0.2j)):
                    continue
                for opn in ("single_layer", "double_layer"):
                    case = {"sub": "kernel-sum", "mesh": name, "family": family, "k": k, "operator": opn, "space": SP.spec_json(dict({"sel": ("all",)}, **spec)), "order": r}
                    try:
                        got = lib_matrix(ops.potential(family, opn, sp, pts, k=k, par=par), sp)
                    except Exception as exc:  # noqa: BLE001
                        ctx.violation("kernel-sum/%s/%s/exception:%s" % (family, opn, type(exc).__name__), case, repr(exc))
                        continue
                    ref = np.array([reference_potential(family, opn, k, pts[:, q], cl) for q in range(pts.shape[1])])  # (npts, 1, ndof)
                    ctx.case((name, family, repr(k), opn, SP.spec_key(dict({"sel": ("all",)}, **spec)), r), sub="kernel-sum",
                             sample=case if len(ctx.samples) < 2 and spec.get("sel") else None)
                    ctx.check_close("kernel-sum/%s/%s" % (family, opn), case, got.transpose(2, 1, 0), ref, TOL, "potential-vs-closed-form")
                    if family == "helmholtz":
                        case = dict(case, sub="far-field-sum")
                        try:
                            gf = lib_matrix(ops.potential("helmholtz", opn, sp, dirs, k=k, par=par, far_field=True), sp)
                        except Exception as exc:  # noqa: BLE001
                            ctx.violation("far-field-sum/%s/exception:%s" % (opn, type(exc).__name__), case, repr(exc))
                            continue
                        reff = np.array([reference_potential("helmholtz", opn, k, dirs[:, q], cl, far=True) for q in range(dirs.shape[1])])
                        ctx.case((name, "ff", repr(k), opn, SP.spec_key(dict({"sel": ("all",)}, **spec)), r), sub="far-field-sum")
                        ctx.check_close("far-field-sum/helmholtz/%s/%s" % (opn, "complex-k" if np.imag(k) != 0 else "real-k"), case, gf.transpose(2, 1, 0), reff, TOL,
                                        "far-field-vs-closed-form")
        for spec in space_specs(mesh, True):
            try:
                sp = SP.make_space(grid, dict({"sel": ("all",)}, **spec))
            except Exception:  # noqa: BLE001
                continue
            cl = cloud(mesh, sp, r)
            div = rwg_divergence(mesh, sp, r)
            for k in MAXK:
                for opn in ("electric_field", "magnetic_field"):
                    case = {"sub": "kernel-sum", "mesh": name, "family": "maxwell", "k": k, "operator": opn, "space": SP.spec_json(dict({"sel": ("all",)}, **spec)), "order": r}
                    try:
                        got = lib_matrix(ops.potential("maxwell", opn, sp, pts, k=k, par=par), sp)
                        gf = lib_matrix(ops.potential("maxwell", opn, sp, dirs, k=k, par=par, far_field=True), sp)
                    except Exception as exc:  # noqa: BLE001
                        ctx.violation("kernel-sum/maxwell/%s/exception:%s" % (opn, type(exc).__name__), case, repr(exc))
                        continue
                    ref = np.array([maxwell_reference(opn, k, pts[:, q], cl, div) for q in range(pts.shape[1])])  # (npts, 3, ndof)
                    ctx.case((name, "maxwell", repr(k), opn, SP.spec_key(dict({"sel": ("all",)}, **spec)), r), sub="kernel-sum")
                    ctx.check_close("kernel-sum/maxwell/%s" % opn, case, got.transpose(2, 1, 0), ref, TOL, "potential-vs-closed-form")
                    reff = np.array([maxwell_reference(opn, k, dirs[:, q], cl, div, far=True) for q in range(dirs.shape[1])])
                    ctx.check_close("far-field-sum/maxwell/%s/%s" % (opn, "complex-k" if np.imag(k) != 0 else "real-k"), dict(case, sub="far-field-sum"),
                                    gf.transpose(2, 1, 0), reff, TOL, "far-field-vs-closed-form")


def _fd_points(x, h):
    """x, then x +- h e_a (columns 1..6), then x +- 2h e_a (columns 7..12)."""
    pts = [x]
    for m in (1, 2):
        for a in range(3):
            for s in (+1, -1):
                y = x.copy()
                y[a] += s * m * h
                pts.append(y)
    return np.array(pts).T


def check_pde(ctx, name, quick):
    import bempp_cl.api as bem

    mesh = meshes.get(name, ctx.seed)
    grid = SP.make_grid(mesh)
    par = ops.params(4, 4)
    dist = [R.distance_to_surface(POINTS[:, q], mesh[0], mesh[1]) for q in range(POINTS.shape[1])]
    area = float(np.sum(R.geometry(mesh[0], mesh[1])["integration_elements"])) / 2.0
    closed = R.is_closed_manifold(mesh[1])
    for q in range(POINTS.shape[1] if not quick else 3):
        x = POINTS[:, q].copy()
        # step relative to the shorter of the distance to the surface and the reduced wavelength of the largest wavenumber in the lattice
        # (central differences: truncation ~ (h/L)^2 resp. (h/L)^4 of the quantity differentiated, L that length)
        kmax = 2.5
        L = min(dist[q], 1.0 / kmax)
        h = 1e-2 * L
        P7 = _fd_points(x, h)
        for spec in space_specs(mesh, False)[: 2 if quick else None]:
            sp = SP.make_space(grid, dict({"sel": ("all",)}, **spec))
            c = np.cos(np.arange(sp.global_dof_count) * 0.9 + 0.2) + 1j * np.sin(np.arange(sp.global_dof_count) * 0.4)
            for family, k in SCALAR:
                for opn in ("single_layer", "double_layer"):
                    u = np.asarray(ops.potential(family, opn, sp, P7, k=k, par=par).evaluate(bem.GridFunction(sp, coefficients=c))).reshape(-1)
                    # fourth-order central second differences: (-f(2h) + 16 f(h) - 30 f(0) + 16 f(-h) - f(-2h)) / (12 h^2) per axis
                    lap = (16 * u[1:7].sum() - u[7:13].sum() - 90 * u[0]) / (12 * h**2)
                    k2 = 0.0 if family == "laplace" else (k * k if family == "helmholtz" else -k * k)
                    res = abs(lap + k2 * u[0])
                    # natural magnitude of the potential (not |u(x)|, which may sit near a zero): max|c| * area * |G| bound at that distance
                    kk = 0.0 if k is None else abs(k)
                    gmag = float(np.max(np.abs(c))) * area / (4 * np.pi * dist[q]) * (1.0 if opn == "single_layer" else (1.0 / dist[q] + kk))
                    scale = max(abs(u[0]), gmag) * (abs(k2) + 6.0 / dist[q] ** 2) + 1e-300
                    ctx.case((name, "pde", family, repr(k), opn, SP.spec_key(dict({"sel": ("all",)}, **spec)), q), sub="pde")
                    ctx.observe("pde-residual(FD)", res / scale, FD)
                    if res > FD * scale:
                        ctx.violation("pde/%s/%s" % (family, opn), {"sub": "pde", "mesh": name, "family": family, "k": k, "operator": opn, "point": x.tolist()},
                                      "(Laplacian + k^2) u = %.3e relative to %.3e" % (res, scale))
        # Maxwell
        mspecs = space_specs(mesh, True)[: 1 if quick else None]
        if not quick:
            mspecs = mspecs + [dict(sp_, inc=False) for sp_ in mspecs if sp_.get("sel") or not closed]
        for spec in mspecs:
            try:
                sp = SP.make_space(grid, dict({"sel": ("all",)}, **spec))
            except Exception:  # noqa: BLE001
                continue
            if sp.global_dof_count == 0:
                continue
            # functions with normal flux through the border of their support (half RWGs on an open border) carry a line charge that the
            # surface-divergence term of the electric potential does not contain: div E = 0 and curl H = -ik E are statements about
            # div-conforming currents only; curl E = ik H and div H = 0 hold for any tangential current
            flux_free = (closed and not spec.get("sel")) or spec.get("inc") is False
            ctx.cover("maxwell_pde_flux_free" if flux_free else "maxwell_pde_with_border_flux", SP.spec_key(dict({"sel": ("all",)}, **spec)))
            c = np.cos(np.arange(sp.global_dof_count) * 0.9 + 0.2) + 1j * np.sin(np.arange(sp.global_dof_count) * 0.4)
            for k in MAXK:
                parh = ops.params(10, 4)
                E = np.asarray(ops.potential("maxwell", "electric_field", sp, P7, k=k, par=parh).evaluate(bem.GridFunction(sp, coefficients=c)))
                H = np.asarray(ops.potential("maxwell", "magnetic_field", sp, P7, k=k, par=parh).evaluate(bem.GridFunction(sp, coefficients=c)))

                def jac(Fld):
                    J = np.zeros((3, 3), dtype=complex)
                    for a in range(3):
                        # fourth-order central first difference
                        J[:, a] = (8 * (Fld[:, 1 + 2 * a] - Fld[:, 2 + 2 * a]) - (Fld[:, 7 + 2 * a] - Fld[:, 8 + 2 * a])) / (12 * h)
                    return J

                def curl(J):
                    return np.array([J[2, 1] - J[1, 2], J[0, 2] - J[2, 0], J[1, 0] - J[0, 1]])

                JE, JH = jac(E), jac(H)
                mag = (np.linalg.norm(E[:, 0]) + np.linalg.norm(H[:, 0])) * (abs(k) + 1.0 / dist[q])
                checks = {"curlE=ikH": curl(JE) - 1j * k * H[:, 0], "curlH=-ikE": curl(JH) + 1j * k * E[:, 0], "divE=0": np.trace(JE), "divH=0": np.trace(JH)}
                for tag, val in checks.items():
                    if not flux_free and tag in ("curlH=-ikE", "divE=0"):
                        continue
                    res = float(np.max(np.abs(val)))
                    ctx.case((name, "maxwell-pde", tag, repr(k), q, SP.spec_key(dict({"sel": ("all",)}, **spec))), sub="pde")
                    ctx.observe("maxwell-" + tag, res / mag, FD)
                    if res > FD * mag:
                        ctx.violation("pde/maxwell/%s" % tag, {"sub": "pde", "mesh": name, "k": k, "identity": tag, "point": x.tolist(), "space": SP.spec_json(dict({"sel": ("all",)}, **spec))},
                                      "%s violated: %.3e relative to %.3e" % (tag, res, mag))


def check_far_field_limit(ctx, name, quick):
    import bempp_cl.api as bem

    mesh = meshes.get(name, ctx.seed)
    grid = SP.make_grid(mesh)
    v = mesh[0]
    D = float(np.max(np.linalg.norm(v - v.mean(axis=1, keepdims=True), axis=0))) * 2
    dirs = directions(4 if quick else 12)
    par = ops.params(4, 4)
    shift = np.array([0.7, -1.1, 0.4])
    grid2 = SP.make_grid(meshes.transform(mesh, t=shift))
    jobs = [("helmholtz", "single_layer", {"kind": "DP0"}), ("helmholtz", "double_layer", {"kind": "P1", "inc": True}),
            ("maxwell", "electric_field", {"kind": "RWG", "inc": True}), ("maxwell", "magnetic_field", {"kind": "RWG", "inc": True})]
    for family, opn, spec in jobs:
        sp = SP.make_space(grid, spec)
        sp2 = SP.make_space(grid2, spec)
        c = np.cos(np.arange(sp.global_dof_count) * 0.9 + 0.2) + 1j * np.sin(np.arange(sp.global_dof_count) * 0.4)
        for k in [0.9, 1 + 0.5j, -0.7 + 0.2j] if not quick else [0.9, 1 + 0.5j]:
            case = {"sub": "far-field-limit", "mesh": name, "family": family, "operator": opn, "k": k}
            sig = "far-field/%s/%s/%s" % (family, opn, "complex-k" if np.imag(k) != 0 else "real-k")
            try:
                ff = np.asarray(ops.potential(family, opn, sp, dirs, k=k, par=par, far_field=True).evaluate(bem.GridFunction(sp, coefficients=c)))
                ff2 = np.asarray(ops.potential(family, opn, sp2, dirs, k=k, par=par, far_field=True).evaluate(bem.GridFunction(sp2, coefficients=c)))
            except Exception as exc:  # noqa: BLE001
                ctx.violation(sig + "/exception:" + type(exc).__name__, case, repr(exc))
                continue
            # translation covariance
            phase = np.exp(-1j * k * (shift @ dirs))
            ctx.case((name, "ff-shift", family, opn, repr(k)), sub="far-field-translation")
            ctx.check_close(sig + "/translation", case, ff2, ff * phase[None, :], TOL, "far-field-translation", scale=float(np.max(np.abs(ff)) * np.max(np.abs(phase))))
            # limit of r exp(-ikr) potential(r xhat)
            errs = []
            radii = [1e2 * D, 1e3 * D]
            if np.imag(k) != 0:
                radii = [r_ for r_ in radii if abs(np.imag(k)) * r_ <= 300] or [200 / abs(np.imag(k)), 290 / abs(np.imag(k))]
                if len(radii) == 1:
                    radii = [radii[0] / 3, radii[0]]
            for rad in radii:
                u = np.asarray(ops.potential(family, opn, sp, rad * dirs, k=k, par=par).evaluate(bem.GridFunction(sp, coefficients=c)))
                lim = rad * np.exp(-1j * k * rad) * u
                errs.append(float(np.max(np.abs(lim - ff)) / np.max(np.abs(ff))))
            ctx.case((name, "ff-limit", family, opn, repr(k)), sub="far-field-limit", sample=dict(case, radii=radii, errors=errs) if len(ctx.samples) < 5 else None)
            bound = [10 * D * (1 + abs(k) * D) / rad for rad in radii]
            ctx.observe("far-field-limit(err*r/D)", max(e_ * rad / D for e_, rad in zip(errs, radii)), 10 * (1 + abs(k) * D))
            if any(e_ > b for e_, b in zip(errs, bound)):
                ctx.violation(sig + "/limit", dict(case, radii=radii, errors=errs), "r exp(-ikr) potential(r x) does not approach the far field like 1/r: errors %s at radii %s" % (errs, radii))


def run(ctx):
    quick = ctx.tier == "quick"
    for name in (["fan4", "tet"] if quick else ["edge2", "fan4", "screen2x2", "tet", "cube12"]):
        check_kernel_sums(ctx, name, quick)
    for name in (["tet"] if quick else ["fan4", "tet", "cube12"]):
        check_pde(ctx, name, quick)
        check_far_field_limit(ctx, name, quick)
    ctx.assumptions += ["closed-form kernels written from the textbook Green's functions; quadrature points/weights from triangle_gauss.rule (validated by C12), "
                        "basis values through the public evaluation path (validated by C09)",
                        "curl H = -ik E and div E = 0 hold only up to quadrature error for the discrete sums: checked at regular order 10 against the FD threshold"]
    return ctx.finish(rule="mesh x potential / far-field operator x accepted space (whole grid, segment, swapped normals) x wavenumber lattice x order x every unit "
                      "coefficient vector x 6 points / 6-12 directions for the closed-form sums; PDE residuals by central differences at the points; far-field "
                      "limit at two radii and translation covariance; distinct = tuples")


def replay(ctx, case):
    sub = case["sub"]
    if sub in ("kernel-sum", "far-field-sum"):
        check_kernel_sums(ctx, case["mesh"], False)
    elif sub == "pde":
        check_pde(ctx, case["mesh"], False)
    else:
        check_far_field_limit(ctx, case["mesh"], False)
