"""C07 - boundary operators between disjoint grids equal Galerkin-tested potentials (E1 sweep)."""

import numpy as np

from bex import ops
from bex import spaces as SP
from bex.models import meshes
from bex.models import topo_ref as R

LEVEL = "exploration"
TOL = 1e-11

PAIRS = [("tet", "octa", (3.1, 0.4, -0.2)), ("edge2", "bow2", (0.3, 0.2, 2.4)), ("cube12", "tet", (-2.6, 0.5, 0.3)), ("screen2x2", "fan5", (0.8, 0.9, 2.2))]
SCALAR = [("laplace", None), ("helmholtz", 1.2), ("helmholtz", 0.8 + 0.3j), ("modified_helmholtz", 0.9)]


def test_cloud(mesh, space, r):
    """Quadrature points of the test grid through grid.map_to_point_cloud, weights*J, normals, test basis values."""
    from bempp_cl.api.integration import triangle_gauss

    v, e, d = mesh
    loc, w = triangle_gauss.rule(r)
    loc, w = np.asarray(loc, dtype=float), np.asarray(w, dtype=float)
    pts = np.asarray(space.grid.map_to_point_cloud(r))  # (M*nq, 3), element-major
    F = SP.global_functions(space, loc)
    g = R.geometry(v, e)
    nm = np.asarray(space.normal_multipliers)
    nq = len(w)
    rows = []
    for t in sorted(F):
        rows.append((t, pts[t * nq: (t + 1) * nq].T, w * g["integration_elements"][t], g["normals"][t] * nm[t], F[t]))
    return rows


def tested_potential(rows, potential_of, ncomp, cross_normal=False):
    """M_ij = sum_q w_q J psi_i(x_q) . P[phi_j](x_q)."""
    X = np.hstack([r_[1] for r_ in rows])
    P = potential_of(X)  # (ndof_trial, ncomp, npts)
    out = None
    off = 0
    for t, x, wj, n, F in rows:
        nq = x.shape[1]
        Pt = P[:, :, off: off + nq]  # (nd, c, q)
        if cross_normal:
            Pt = np.cross(Pt, n[None, :, None], axis=1)
        contrib = np.einsum("q,cqi,jcq->ij", wj, F, Pt)
        out = contrib if out is None else out + contrib
        off += nq
    return out


def lib_potential_matrix(family, opn, space, k, par):
    import bempp_cl.api as bem

    n = space.global_dof_count

    def f(X):
        pot = ops.potential(family, opn, space, X, k=k, par=par)
        return np.array([np.asarray(pot.evaluate(bem.GridFunction(space, coefficients=np.eye(n)[j]))) for j in range(n)])

    return f


def scalar_space_pairs(mesh_t, mesh_d, quick):
    dt = sorted(set(mesh_t[2].tolist()))
    out = [({"kind": "DP0"}, {"kind": "DP0"}), ({"kind": "P1", "inc": True}, {"kind": "DP1"}), ({"kind": "DP1"}, {"kind": "P1", "inc": True})]
    if len(dt) > 1:
        out.append(({"kind": "P1", "sel": ("segments", (dt[-1],)), "inc": True}, {"kind": "DP0"}))
    # trial spaces whose element list is not the identity numbering and whose normal multipliers are not constant: flipped normals on a proper
    # subset of the domains (multi-colour P1, whole grid) and a segment space with the complementary flip
    dd = sorted(set(mesh_d[2].tolist()))
    if len(dd) > 1:
        out.append(({"kind": "DP0"}, {"kind": "P1", "inc": True, "swapped": (dd[-1],)}))
        out.append(({"kind": "DP0"}, {"kind": "DP1", "sel": ("segments", (dd[-1],)), "swapped": (dd[-1],)}))
        out.append(({"kind": "DP0", "swapped": (dt[0],)}, {"kind": "P1", "sel": ("segments", (dd[0],)), "inc": True, "swapped": (dd[0],)}))
    return out


def run_pair(ctx, tname, dname, shift, quick):
    mt = meshes.get(tname, ctx.seed)
    md = meshes.transform(meshes.get(dname, ctx.seed), t=shift)
    gt, gd = SP.make_grid(mt), SP.make_grid(md)
    # the two grids must not touch
    dist = min(R.distance_to_surface(md[0][:, p], mt[0], mt[1]) for p in range(md[0].shape[1]))
    if dist < 0.2:
        raise RuntimeError("grids %s and %s+t touch" % (tname, dname))
    pair = "%s|%s+t" % (tname, dname)
    for r in ([2, 4] if quick else [2, 4, 6]):
        par = ops.params(r, 4)
        for tspec, dspec in scalar_space_pairs(mt, md, quick):
            tsp = SP.make_space(gt, dict({"sel": ("all",)}, **tspec))
            dsp = SP.make_space(gd, dict({"sel": ("all",)}, **dspec))
            rows = test_cloud(mt, tsp, r)
            for family, k in SCALAR:
                for opn in ("single_layer", "double_layer"):
                    case = {"sub": "scalar", "pair": [tname, dname, list(shift)], "family": family, "k": k, "operator": opn,
                            "test": SP.spec_json(dict({"sel": ("all",)}, **tspec)), "trial": SP.spec_json(dict({"sel": ("all",)}, **dspec)), "order": r}
                    sig = "two-grid/%s/%s" % (family, opn)
                    try:
                        A = ops.dense(ops.boundary(family, opn, dsp, dsp, tsp, k=k, par=par))
                        M = tested_potential(rows, lib_potential_matrix(family, opn, dsp, k, par), 1)
                    except Exception as exc:  # noqa: BLE001
                        ctx.violation(sig + "/exception:" + type(exc).__name__, case, repr(exc))
                        continue
                    ctx.case((pair, family, repr(k), opn, SP.spec_key(dict({"sel": ("all",)}, **tspec)), SP.spec_key(dict({"sel": ("all",)}, **dspec)), r), sub="scalar",
                             sample=case if len(ctx.samples) < 2 and tspec.get("sel") else None)
                    ctx.check_close(sig, case, A, M, TOL, "boundary-vs-tested-potential")
        # Maxwell
        closed_t = R.is_closed_manifold(mt[1])
        # on an open test grid only test functions without boundary flux allow the integration by parts behind the E identity
        dd = sorted(set(md[2].tolist()))
        dt = sorted(set(mt[2].tolist()))
        mx = [({"kind": "SNC", "inc": closed_t}, {"kind": "RWG", "inc": True})]
        if len(dd) > 1 and r == 4:
            mx.append(({"kind": "SNC", "inc": closed_t, "swapped": (dt[-1],)}, {"kind": "RWG", "inc": True, "swapped": (dd[-1],)}))
        for tspec, dspec in mx:
            try:
                tsp = SP.make_space(gt, tspec)
                dsp = SP.make_space(gd, dspec)
            except Exception:  # noqa: BLE001
                continue
            if min(tsp.global_dof_count, dsp.global_dof_count) == 0:
                continue
            rows = test_cloud(mt, tsp, r)
            for k in (1.2, 0.8 + 0.3j):
                case = {"sub": "maxwell", "pair": [tname, dname, list(shift)], "k": k, "order": r, "test": SP.spec_json(tspec), "trial": SP.spec_json(dspec)}
                try:
                    H = ops.dense(ops.boundary("maxwell", "magnetic_field", dsp, dsp, tsp, k=k, par=par))
                    MH = tested_potential(rows, lib_potential_matrix("maxwell", "magnetic_field", dsp, k, par), 3, cross_normal=True)
                    E = ops.dense(ops.boundary("maxwell", "electric_field", dsp, dsp, tsp, k=k, par=par))
                    ME = tested_potential(rows, lib_potential_matrix("maxwell", "electric_field", dsp, k, par), 3, cross_normal=True)
                except Exception as exc:  # noqa: BLE001
                    ctx.violation("two-grid/maxwell/exception:" + type(exc).__name__, case, repr(exc))
                    continue
                ctx.case((pair, "maxwell", repr(k), r, SP.spec_key(tspec), SP.spec_key(dspec)), sub="maxwell")
                ctx.check_close("two-grid/maxwell/magnetic_field", case, H, MH, TOL, "H-vs-tested-potential")
                err = float(np.max(np.abs(E - ME)) / np.max(np.abs(E)))
                if not tspec.get("swapped"):
                    ctx.cov.setdefault("efield_errors", {}).setdefault((pair, repr(k)), []).append((r, err))
                else:
                    ctx.observe("E-vs-tested-potential(swapped, order 4)", err, 0.2)
                    if err > 0.2:
                        ctx.violation("two-grid/maxwell/electric_field", case, "tested electric potential differs from the boundary matrix by %.2e at order 4" % err)


def run(ctx):
    quick = ctx.tier == "quick"
    for tname, dname, shift in (PAIRS[:2] + PAIRS[3:] if quick else PAIRS):
        run_pair(ctx, tname, dname, shift, quick)
    # electric field: agreement up to quadrature error (the potential integrates the divergence term by parts)
    ef = ctx.cov.pop("efield_errors", {})
    for (pair, k), lst in ef.items():
        lst = sorted(lst)
        errs = [e for _, e in lst]
        case = {"sub": "maxwell-efield", "pair": pair, "k": k, "errors": lst}
        ctx.observe("E-vs-tested-potential(top order)", errs[-1], 5e-3)
        if errs[0] > 0.2 or errs[-1] > 5e-3 or (errs[0] > 1e-9 and errs[-1] > errs[0]):
            ctx.violation("two-grid/maxwell/electric_field", case, "tested electric potential does not approach the boundary matrix: %s" % lst)
        if len(ctx.samples) < 4:
            ctx.samples.append(case)
    ctx.assumptions += ["test-grid quadrature points taken from grid.map_to_point_cloud(order); potentials evaluated by the library's potential operators with the "
                        "same parameter object; test basis through the public evaluation path"]
    return ctx.finish(rule="ordered pairs of disjoint grids x {single, double layer} x {Laplace, Helmholtz real/complex, modified} x test/trial space kinds x "
                      "orders {2,4,6}: boundary matrix against sum_q w_q J psi_i(x_q) P[phi_j](x_q) for every (i,j); Maxwell H likewise (x n), E along the order ladder")


def replay(ctx, case):
    t, d, shift = case["pair"] if isinstance(case["pair"], list) else (None, None, None)
    for tn, dn, sh in PAIRS:
        if (t is None and case["pair"] == "%s|%s+t" % (tn, dn)) or (tn, dn) == (t, d):
            run_pair(ctx, tn, dn, sh, False)
