"""C11 - grid topology and geometry data are complete and consistent.

E2: explicit-state search over grids reachable from catalogue meshes / their sub-complexes by
constructor steps (relabel, dtype/order change, refine, barycentric refinement, union, segment
extraction).  Every state (a real bempp Grid) is compared with the brute-force reference
(`topo_ref`), and every derived grid with the reference statement of what the constructor preserves.
"""

import itertools

import numpy as np

from bex.models import meshes, topo_ref as R
from bex.core import ROUND

LEVEL = "model_checking"

DTYPES = [
    ("u32F/f64F", "uint32", "F", "float64", "F"),
    ("i64C/f64C", "int64", "C", "float64", "C"),
    ("i32C/f32C", "int32", "C", "float32", "C"),
    ("u32C/f64F", "uint32", "C", "float64", "F"),
    ("i64F/f32F", "int64", "F", "float32", "F"),
]


def _grid(mesh, dt=None):
    import bempp_cl.api as bem

    v, e, d = mesh
    if dt is not None:
        _, et, eo, vt, vo = dt
        v = np.array(v, dtype=vt, order=vo)
        e = np.array(e, dtype=et, order=eo)
        d = np.array(d, dtype=et)
    return bem.Grid(v, e, d)


def _mesh_of(grid):
    return (np.array(grid.vertices, dtype=np.float64), np.array(grid.elements, dtype=np.int64),
            np.array(grid.domain_indices, dtype=np.int64))


def verify_grid(ctx, grid, mesh, sig, case):
    """Compare every table of `grid` with the reference computed from `mesh` = (v, e, d)."""
    v, e, d = mesh
    v = np.asarray(v, dtype=np.float64)
    M, N = e.shape[1], v.shape[1]
    ok = True

    def bad(what, msg):
        nonlocal ok
        ok = False
        ctx.violation("%s/%s" % (sig, what), case, msg)

    if not (np.array_equal(grid.vertices, v) and np.array_equal(grid.elements, e) and np.array_equal(grid.domain_indices, d)):
        bad("input-arrays", "vertices/elements/domain_indices differ from the constructor input")
        return False
    if (grid.number_of_elements, grid.number_of_vertices) != (M, N) or grid.entity_count(0) != M or grid.entity_count(2) != N:
        bad("counts", "element/vertex counts")
    # --- edges ---------------------------------------------------------
    ref_edges = R.undirected_edges(e)
    ge = [frozenset(int(x) for x in col) for col in np.asarray(grid.edges).T]
    if len(ge) != len(set(ge)):
        bad("edges-unique", "an undirected edge is listed more than once")
    if set(ge) != set(ref_edges) or grid.number_of_edges != len(ref_edges) or grid.entity_count(1) != len(ref_edges):
        bad("edges-complete", "edge set differs from reference: %d vs %d" % (len(ge), len(ref_edges)))
        return False
    if any(len(x) != 2 for x in ge):
        bad("edges-degenerate", "edge with equal end points")
    ee = np.asarray(grid.element_edges)
    for j in range(M):
        t = R.tri(e, j)
        for li, (a, b) in enumerate(R.EDGE_LOCAL):
            if ge[int(ee[li, j])] != frozenset((t[a], t[b])):
                bad("element-edges", "element_edges[%d,%d] is not the edge of local vertices %s" % (li, j, (a, b)))
                break
    # --- neighbour tables ------------------------------------------------
    en = grid.edge_neighbors
    for k, key in enumerate(ge):
        want = sorted(j for j, _ in ref_edges[key])
        if sorted(int(x) for x in en[k]) != want:
            bad("edge-neighbors", "edge %d neighbours %s != %s" % (k, list(en[k]), want))
            break
    star = R.vertex_star(e, N)
    vn = grid.vertex_neighbors
    for p in range(N):
        got = sorted(int(x) for x in vn.indices[vn.indexptr[p]: vn.indexptr[p + 1]])
        if got != sorted(star[p]):
            bad("vertex-neighbors", "vertex %d neighbours %s != %s" % (p, got, sorted(star[p])))
            break
    eln = grid.element_neighbors
    for j in range(M):
        got = sorted(int(x) for x in eln.indices[eln.indexptr[j]: eln.indexptr[j + 1]])
        want = sorted({x for k in range(3) for x in star[int(e[k, j])]})
        if got != want:
            bad("element-neighbors", "element %d neighbours %s != %s" % (j, got, want))
            break
    # --- adjacency -------------------------------------------------------
    edge_adj, vertex_adj, dup = R.adjacency(e)
    ea = np.asarray(grid.edge_adjacency)
    got_e = {}
    for col in ea.T:
        key = (int(col[0]), int(col[1]))
        if key in got_e:
            bad("edge-adjacency-dup", "pair %s listed twice" % (key,))
        got_e[key] = frozenset([(int(col[2]), int(col[4])), (int(col[3]), int(col[5]))])
    if set(got_e) != set(edge_adj):
        bad("edge-adjacency-pairs", "pairs differ: missing %s extra %s" % (sorted(set(edge_adj) - set(got_e))[:3], sorted(set(got_e) - set(edge_adj))[:3]))
    else:
        for key in edge_adj:
            if got_e[key] != edge_adj[key]:
                bad("edge-adjacency-local", "pair %s local indices %s != %s" % (key, sorted(got_e[key]), sorted(edge_adj[key])))
                break
            ctx.cover("edge_classes", R.edge_class(edge_adj[key]))
    va = np.asarray(grid.vertex_adjacency)
    got_v = {}
    for col in va.T:
        key = (int(col[0]), int(col[1]))
        if key in got_v:
            bad("vertex-adjacency-dup", "pair %s listed twice" % (key,))
        got_v[key] = (int(col[2]), int(col[3]))
    if set(got_v) != set(vertex_adj):
        bad("vertex-adjacency-pairs", "pairs differ: missing %s extra %s" % (sorted(set(vertex_adj) - set(got_v))[:3], sorted(set(got_v) - set(vertex_adj))[:3]))
    else:
        for key in vertex_adj:
            if got_v[key] != vertex_adj[key]:
                bad("vertex-adjacency-local", "pair %s local indices %s != %s" % (key, got_v[key], vertex_adj[key]))
                break
            ctx.cover("vertex_classes", vertex_adj[key])
    # --- boundary ---------------------------------------------------------
    bedges, bverts = R.boundary(e, N)
    eb = np.asarray(grid.edge_on_boundary)
    vb = np.asarray(grid.vertex_on_boundary)
    if {ge[k] for k in range(len(ge)) if eb[k]} != bedges:
        bad("edge-on-boundary", "boundary edge flags differ")
    if {p for p in range(N) if vb[p]} != bverts:
        bad("vertex-on-boundary", "boundary vertex flags differ")
    if bedges:
        ctx.cover("has_boundary", True)
    if any(len(l) > 2 for l in ref_edges.values()):
        ctx.cover("has_nonmanifold_edge", True)
    # --- geometry ----------------------------------------------------------
    g = R.geometry(v, e)
    scale = float(np.max(np.abs(v))) or 1.0
    L = float(np.max(g["diameters"]))
    for name, got, want, sc in [
        ("normals", grid.normals, g["normals"], 1.0),
        ("volumes", grid.volumes, g["volumes"], L * L),
        ("centroids", grid.centroids, g["centroids"], scale),
        ("jacobians", grid.jacobians, g["jacobians"], L),
        ("integration_elements", grid.integration_elements, g["integration_elements"], L * L),
        ("diameters", grid.diameters, g["diameters"], L),
        ("jacobian_inverse_transposed", grid.jacobian_inverse_transposed, g["jit"], 1.0 / float(np.min(g["diameters"])) * 10),
    ]:
        if not ctx.check_close("%s/geometry-%s" % (sig, name), case, np.asarray(got), want, ROUND, "geometry:" + name, scale=sc):
            ok = False
    nrm = np.asarray(grid.normals)
    if np.max(np.abs(np.linalg.norm(nrm, axis=1) - 1)) > 1e-13:
        bad("normals-unit", "normals are not unit")
    for j in range(M):
        p0, p1, p2 = (v[:, int(e[k, j])] for k in range(3))
        if np.dot(np.cross(p1 - p0, p2 - p0), nrm[j]) <= 0:
            bad("normals-right-handed", "normal of element %d is not right-handed w.r.t. the vertex order" % j)
            break
    bb = grid.bounding_box
    if not (np.array_equal(bb[:, 0], v.min(axis=1)) and np.array_equal(bb[:, 1], v.max(axis=1))):
        bad("bounding-box", "bounding box")
    # data containers see the same arrays
    dd = grid.data("double")
    if not (np.array_equal(dd.vertices, v) and np.array_equal(dd.elements, e) and np.array_equal(dd.normals, nrm)):
        bad("data-container", "grid.data('double') differs from the grid tables")
    ds = grid.data("single")
    if ds.vertices.dtype != np.float32 or np.max(np.abs(ds.vertices - v)) > 1e-6 * scale:
        bad("data-container-single", "single precision container")
    # element objects
    el = grid.get_element(M - 1)
    if el.index != M - 1 or el.domain_index != d[M - 1] or abs(el.geometry.volume - g["volumes"][M - 1]) > ROUND * L * L:
        bad("element-object", "Element/ElementGeometry accessors")
    return ok


def _locate_parent(pt, v, e, tol=1e-9):
    """Indices of elements of (v,e) containing point pt (in plane, barycentric coords >= -tol)."""
    out = []
    for j in range(e.shape[1]):
        p0, p1, p2 = (v[:, int(e[k, j])] for k in range(3))
        A = np.column_stack([p1 - p0, p2 - p0])
        lam, res, *_ = np.linalg.lstsq(A, pt - p0, rcond=None)
        if np.linalg.norm(A @ lam - (pt - p0)) < tol * (1 + np.linalg.norm(A)) and lam.min() > -tol and lam.sum() < 1 + tol:
            out.append(j)
    return out


def verify_derived(ctx, kind, parent, child, factor, sig, case):
    """Refinement-type constructors: area, orientation, domain indices, nesting, numbering convention."""
    pv, pe, pd = parent
    cv, ce, cd = child
    if ce.shape[1] != factor * pe.shape[1]:
        ctx.violation(sig + "/count", case, "%d children for %d parents" % (ce.shape[1], pe.shape[1]))
        return
    pg, cg = R.geometry(pv, pe), R.geometry(cv, ce)
    ctx.check_close(sig + "/area", case, cg["volumes"].sum(), pg["volumes"].sum(), ROUND, "derived:area")
    # documented numbering: children of element j are factor*j .. factor*j+factor-1
    for c in range(ce.shape[1]):
        j = c // factor
        cen = cg["centroids"][c]
        par = _locate_parent(cen, pv, pe)
        if j not in par:
            ctx.violation(sig + "/nesting", case, "child %d does not lie in parent %d (lies in %s)" % (c, j, par))
            return
        if abs(np.dot(cg["normals"][c], pg["normals"][j]) - 1) > 1e-12:
            ctx.violation(sig + "/orientation", case, "child %d normal differs from parent normal" % c)
            return
        if cd[c] != pd[j]:
            ctx.violation(sig + "/domain", case, "child %d domain %d != parent's %d" % (c, cd[c], pd[j]))
            return
        if abs(cg["volumes"][c] - pg["volumes"][j] / factor) > 1e-12 * pg["volumes"][j]:
            ctx.violation(sig + "/child-area", case, "child %d area is not 1/%d of the parent" % (c, factor))
            return
    # original vertices keep their numbers
    if not np.array_equal(cv[:, : pv.shape[1]], pv):
        ctx.violation(sig + "/vertex-prefix", case, "parent vertices are not the first vertices of the child grid")
    # conformity: the child of a conforming mesh is conforming (same number of boundary edges doubled, no hanging nodes)
    pb, _ = R.boundary(pe, pv.shape[1])
    cb, _ = R.boundary(ce, cv.shape[1])
    if len(cb) != 2 * len(pb):
        ctx.violation(sig + "/conforming", case, "boundary edges %d != 2*%d (hanging nodes?)" % (len(cb), len(pb)))


# ---------------------------------------------------------------------------
# events of the explicit-state search
# ---------------------------------------------------------------------------
def _events(mesh, depth_left):
    v, e, d = mesh
    M, N = e.shape[1], v.shape[1]
    ev = []
    # three fixed vertex permutations + element reversal/rotation
    ev.append(("relabel", "rev-vertices"))
    ev.append(("relabel", "rot-vertices"))
    ev.append(("relabel", "rev-elements"))
    ev.append(("relabel", "local-rot"))
    for dt in DTYPES[1:]:
        ev.append(("dtype", dt[0]))
    if M <= 48:
        ev.append(("refine",))
    if M <= 32:
        ev.append(("barycentric",))
    if M <= 24:
        for sw in (False, True):
            for norm in (True, False):
                ev.append(("union", sw, norm))
    if M <= 8:
        # three and four operands (the running offset of the domain indices matters from the third grid on)
        ev.append(("union", True, True, 3))
        ev.append(("union", False, False, 3))
        ev.append(("union", True, True, 4))
    doms = sorted(set(d.tolist()))
    if len(doms) > 1:
        ev.append(("segments", tuple(doms[:1])))
        ev.append(("segments", tuple(doms[1:])))
    return ev


def _apply(ctx, mesh, ev, hist):
    """Apply one constructor step with the real library; check what the step promises; return new mesh."""
    import bempp_cl.api as bem
    from bempp_cl.api.grid.grid import union, grid_from_segments

    v, e, d = mesh
    M, N = e.shape[1], v.shape[1]
    case = {"base": hist[0], "history": list(hist[1:]) + [list(ev)]}
    sig = "step/" + ev[0]
    if ev[0] == "relabel":
        if ev[1] == "rev-vertices":
            return meshes.perm_vertices(mesh, np.arange(N)[::-1])
        if ev[1] == "rot-vertices":
            return meshes.perm_vertices(mesh, np.roll(np.arange(N), 1))
        if ev[1] == "rev-elements":
            return meshes.perm_elements(mesh, np.arange(M)[::-1])
        return meshes.rotate_local(mesh, [(j % 3) for j in range(M)])
    if ev[0] == "dtype":
        dt = [x for x in DTYPES if x[0] == ev[1]][0]
        g = _grid(mesh, dt)
        m2 = _mesh_of(g)
        v32 = np.asarray(np.array(v, dtype=dt[3]), dtype=np.float64)
        if not (np.array_equal(m2[0], v32) and np.array_equal(m2[1], e) and np.array_equal(m2[2], d)):
            ctx.violation(sig + "/" + ev[1], case, "grid built from %s arrays differs from the input" % ev[1])
        if not (g.vertices.dtype == np.float64 and g.vertices.flags.f_contiguous and g.elements.dtype == np.uint32):
            ctx.violation(sig + "/normalised", case, "internal arrays not normalised to float64/uint32 Fortran order")
        return m2
    if ev[0] == "refine":
        g = _grid(mesh).refine()
        m2 = _mesh_of(g)
        verify_derived(ctx, "refine", mesh, m2, 4, sig, case)
        return m2
    if ev[0] == "barycentric":
        g0 = _grid(mesh)
        g = g0.barycentric_refinement
        if g0.barycentric_refinement is not g:
            ctx.violation(sig + "/cached", case, "barycentric_refinement not cached")
        m2 = _mesh_of(g)
        verify_derived(ctx, "barycentric", mesh, m2, 6, sig, case)
        # documented sub-triangle layout: triangle 6j+2i, 6j+2i+1 touch local edge ... and first vertex is a coarse vertex
        for c in range(m2[1].shape[1]):
            j, k = divmod(c, 6)
            want = int(e[[0, 1, 1, 2, 2, 0][k], j])
            if int(m2[1][0, c]) != want:
                ctx.violation(sig + "/layout", case, "sub-triangle %d of element %d does not start at coarse vertex %d" % (k, j, want))
                break
        return m2
    if ev[0] == "union":
        sw, norm = ev[1], ev[2]
        parts = ev[3] if len(ev) > 3 else 2
        g1 = _grid(mesh)
        shift = np.array([[2.5 * (np.ptp(v[0]) + 1)], [0.3], [0.1]])
        grids = [g1] + [_grid((v + i * shift, e, d)) for i in range(1, parts)]
        flags = [False] + [bool(sw) if i % 2 == 1 else False for i in range(1, parts)]
        g = union(grids, swapped_normals=flags, normalize_domain_indices=norm)
        m2 = _mesh_of(g)
        # reference statement: vertices concatenated, elements offset, a part reversed iff flagged
        want_v = np.hstack([v + i * shift for i in range(parts)])
        want_e = np.hstack([(e[[0, 2, 1], :] if flags[i] else e) + i * N for i in range(parts)])
        if not (np.array_equal(m2[0], want_v) and np.array_equal(m2[1], want_e)):
            ctx.violation(sig + "/arrays", case, "union vertices/elements")
        # domain indices: the grids keep pairwise disjoint index sets, relative order inside each grid preserved
        pieces = [m2[2][i * M:(i + 1) * M] for i in range(parts)]
        for i in range(parts):
            for j in range(i + 1, parts):
                if set(pieces[i].tolist()) & set(pieces[j].tolist()):
                    ctx.violation(sig + "/domains-disjoint", case, "domain indices of grids %d and %d of the union overlap: %s %s" % (
                        i, j, sorted(set(pieces[i].tolist())), sorted(set(pieces[j].tolist()))))
        for part in pieces:
            # same partition of elements into domains, same ordering of the labels
            if not np.array_equal(np.unique(d, return_inverse=True)[1], np.unique(part, return_inverse=True)[1]):
                ctx.violation(sig + "/domains-partition", case, "union changed the grouping/order of domain indices")
        if norm and sorted(set(m2[2].tolist())) != list(range(len(set(m2[2].tolist())))):
            ctx.violation(sig + "/domains-normalised", case, "normalised domain indices are not 0..N-1: %s" % sorted(set(m2[2].tolist())))
        if norm and len(set(m2[2].tolist())) != parts * len(set(d.tolist())):
            ctx.violation(sig + "/domains-count", case, "union of %d grids with %d domains each has %d distinct indices" % (parts, len(set(d.tolist())), len(set(m2[2].tolist()))))
        if not norm and not np.array_equal(pieces[0], d):
            ctx.violation(sig + "/domains-kept", case, "first grid's domain indices changed without normalisation")
        ga, gb = R.geometry(v, e), R.geometry(*m2[:2])
        ctx.check_close(sig + "/area", case, gb["volumes"].sum(), parts * ga["volumes"].sum(), ROUND, "derived:area")
        for i in range(parts):
            if flags[i] and np.max(np.abs(gb["normals"][i * M:(i + 1) * M] + ga["normals"])) > 1e-13:
                ctx.violation(sig + "/swapped", case, "swapped_normals did not reverse the normals of grid %d" % i)
        return m2
    if ev[0] == "segments":
        segs = list(ev[1])
        g = grid_from_segments(_grid(mesh), segs)
        m2 = _mesh_of(g)
        keep = [j for j in range(M) if d[j] in segs]
        ref = meshes.submesh(mesh, keep)
        # compare as sets of geometric triangles with domain (vertex numbering of the result is free)
        def tris(m):
            return sorted((tuple(tuple(np.round(m[0][:, int(m[1][k, j])], 12)) for k in range(3)), int(m[2][j])) for j in range(m[1].shape[1]))
        if tris(m2) != tris(ref):
            ctx.violation(sig + "/content", case, "grid_from_segments does not contain exactly the selected triangles (orientation/domain preserved)")
        if m2[0].shape[1] != ref[0].shape[1]:
            ctx.violation(sig + "/vertices", case, "unused or duplicated vertices in segment grid")
        return m2
    raise ValueError(ev)


def segment_sweep(ctx, name, quick):
    """grid_from_segments for every subset of the mesh's own domain indices, and - with every element given its own index - for every
    single element, every pair and (thorough) every triple and every complement of a single element: small selections with high
    vertex numbers, scattered selections, nearly complete selections."""
    import itertools

    base = meshes.get(name, ctx.seed)
    M = base[1].shape[1]
    n = 0
    for label, mesh in (("own-domains", base), ("one-domain-per-element", (base[0], base[1], np.arange(M) + 1))):
        doms = sorted(set(mesh[2].tolist()))
        if label == "own-domains":
            subsets = [c for r in range(1, len(doms) + 1) for c in itertools.combinations(doms, r)]
        else:
            sizes = [1, 2] if quick else [1, 2, 3]
            subsets = [c for r in sizes for c in itertools.combinations(doms, r)] + [tuple(x for x in doms if x != y) for y in doms]
        for segs in subsets:
            hist = ("%s:%s" % (name, label),)
            ev = ("segments", tuple(int(x) for x in segs))
            try:
                _apply(ctx, mesh, ev, hist)
            except Exception as exc:  # noqa: BLE001
                ctx.violation("step/segments/exception:%s" % type(exc).__name__, {"base": hist[0], "history": [list(ev)]}, repr(exc))
            ctx.transitions += 1
            ctx.case(("segsweep", name, label, segs), sub="segment-extraction")
            n += 1
    ctx.cover("segment_sweep_meshes", name)
    return n


def _canon(mesh):
    v, e, d = mesh
    return (np.ascontiguousarray(v).tobytes(), np.ascontiguousarray(e).tobytes(), np.ascontiguousarray(d).tobytes())


def explore(ctx, base_name, base_mesh, depth):
    """BFS over constructor histories from one base mesh."""
    import collections

    hist0 = (base_name,)
    seen = {_canon(base_mesh)}
    frontier = collections.deque([(hist0, base_mesh)])
    g = _grid(base_mesh)
    verify_grid(ctx, g, base_mesh, "grid", {"base": base_name, "history": []})
    ctx.states += 1
    ctx.case((base_name,), sub="grid-state", sample={"base": base_name, "history": []})
    while frontier:
        hist, mesh = frontier.popleft()
        if len(hist) - 1 >= depth:
            continue
        for ev in _events(mesh, depth - (len(hist) - 1)):
            try:
                m2 = _apply(ctx, mesh, ev, hist)
            except Exception as exc:  # noqa: BLE001
                ctx.violation("step/%s/exception:%s" % (ev[0], type(exc).__name__), {"base": base_name, "history": list(hist[1:]) + [list(ev)]}, repr(exc))
                continue
            ctx.transitions += 1
            k = _canon(m2)
            if k in seen:
                continue
            seen.add(k)
            h2 = hist + (ev,)
            case = {"base": base_name, "history": [list(x) for x in h2[1:]]}
            try:
                g = _grid(m2)
                verify_grid(ctx, g, m2, "grid", case)
            except Exception as exc:  # noqa: BLE001
                ctx.violation("grid/exception:%s" % type(exc).__name__, case, repr(exc))
                continue
            ctx.states += 1
            ctx.case(k, sub="grid-state", sample=case if len(h2) == 3 else None)
            ctx.cover("max_depth_reached", len(h2) - 1)
            frontier.append((h2, m2))


def subcomplexes(ctx, name, sizes=None):
    base = meshes.get(name, ctx.seed)
    M = base[1].shape[1]
    n = 0
    for sub in R.all_subsets(M, sizes):
        m = meshes.submesh(base, sub)
        case = {"base": name, "subcomplex": list(sub), "history": []}
        try:
            g = _grid(m)
            verify_grid(ctx, g, m, "grid", case)
        except Exception as exc:  # noqa: BLE001
            ctx.violation("grid/exception:%s" % type(exc).__name__, case, repr(exc))
        ctx.states += 1
        ctx.transitions += 1
        ctx.case(("sub", name, sub), sub="subcomplex", sample=case if n == 37 else None)
        n += 1
    return n


def _base(ctx, name):
    if ":" in name:
        nm, label = name.split(":")
        b = meshes.get(nm, ctx.seed)
        return b if label == "own-domains" else (b[0], b[1], np.arange(b[1].shape[1]) + 1)
    if "[" in name:
        nm, sub = name.split("[")
        sub = [int(x) for x in sub.rstrip("]").split(",")]
        return meshes.submesh(meshes.get(nm, ctx.seed), sub)
    return meshes.get(name, ctx.seed)


def run(ctx):
    quick = ctx.tier == "quick"
    # 1. every catalogue mesh as a state, constructor histories from small bases
    for name in meshes.names():
        m = meshes.get(name, ctx.seed)
        if m[1].shape[1] > (120 if quick else 400):
            continue
        case = {"base": name, "history": []}
        g = _grid(m)
        verify_grid(ctx, g, m, "grid", case)
        ctx.states += 1
        ctx.case(("cat", name), sub="catalogue")
    bases = ["edge2", "bow2", "book3", "fan4", "tet", "octa", "screen2x2"] if quick else \
        ["tri1", "edge2", "bow2", "book3", "fan4", "fan5", "tet", "octa", "screen2x2", "cube12", "nested", "torus18", "twotet"]
    for b in bases:
        explore(ctx, b, _base(ctx, b), 2 if quick else 3)
    # 2. exhaustive sub-complex sweeps
    n = subcomplexes(ctx, "octa")
    n += subcomplexes(ctx, "screen2x2")
    n += subcomplexes(ctx, "book3")
    n += subcomplexes(ctx, "cube12", sizes=None if not quick else {1, 2, 3, 10, 11, 12})
    if not quick:
        n += subcomplexes(ctx, "torus18", sizes={1, 2, 3, 16, 17, 18})
        n += subcomplexes(ctx, "fan5")
        n += subcomplexes(ctx, "prism8")
    ctx.cov["subcomplexes"] = n
    # 3. segment extraction: all domain subsets, and single / paired / nearly complete element selections on meshes with > 8 vertices
    ns = 0
    for name in (["screen3x3", "torus18", "lshape28"] if quick else ["screen3x3", "torus18", "lshape28", "cube12", "twocubes", "ushape", "nested"]):
        ns += segment_sweep(ctx, name, quick)
    ctx.cov["segment_extractions"] = ns
    # histories from a few sub-complexes (non-initial states)
    for b in (["octa[0,1,2,5]", "cube12[0,1,4,5,8]"] if quick else ["octa[0,1,2,5]", "cube12[0,1,4,5,8]", "cube12[0,3,6,9,11]", "screen2x2[0,1,2,5,6]", "torus18[0,1,2,3,4,5]"]):
        explore(ctx, b, _base(ctx, b), 2)
    ctx.require(len(ctx.cov.get("edge_classes", ())) == 9, "all 9 (test edge, trial edge) local-edge classes of edge-adjacent pairs realised: %s" % sorted(ctx.cov.get("edge_classes", ())))
    ctx.require(len(ctx.cov.get("vertex_classes", ())) == 9, "all 9 vertex adjacency classes realised")
    ctx.require("has_boundary" in ctx.cov and "has_nonmanifold_edge" in ctx.cov, "open and non-manifold meshes present")
    ctx.traces_validated = ctx.transitions  # every transition is executed on the real library (no separate model)
    ctx.assumptions += ["reference = O(n^2) set-based topology + textbook geometry formulas (bex/models/topo_ref.py)",
                        "duplicate elements (pairs sharing 3 vertices) are outside the alphabet"]
    return ctx.finish(
        rule="states = distinct (vertices, elements, domains) triples reached from catalogue meshes and ALL sub-complexes of "
        "octa/screen2x2/book3/cube12 (thorough: + torus18 bands, fan5, prism8) by <=2 (3) constructor steps "
        "{4 relabelings, 4 dtype/order variants, refine, barycentric, 4 unions, segment extraction}; grid_from_segments additionally for every "
        "domain subset and every single / pair (triple) / all-but-one element selection of screen3x3, torus18, lshape28 (...); every state is a real Grid "
        "compared table by table with the brute-force reference; distinct = distinct canonical grids",
        extra={"bases": bases},
    )


def replay(ctx, case):
    mesh = _base(ctx, case["base"]) if "subcomplex" not in case else meshes.submesh(meshes.get(case["base"], ctx.seed), case["subcomplex"])
    hist = (case["base"],)
    for ev in case.get("history", []):
        ev = tuple(tuple(x) if isinstance(x, list) else x for x in ev)
        mesh = _apply(ctx, mesh, ev, hist)
        hist = hist + (ev,)
    g = _grid(mesh)
    verify_grid(ctx, g, mesh, "grid", case)
