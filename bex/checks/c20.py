"""C20 - OpenCL and Numba backends define the same kernels and shape functions.

Every `inline void` Green's-function kernel found in kernels.h (scalar and 4/8/16-wide, single and double
precision) is compiled for the host by clang's OpenCL C front end and executed on an input lattice; the values are
compared with the Numba kernel of the same meaning and with an independent closed form.
"""

import ctypes
import itertools
import os

import numpy as np

from bex import ocl

LEVEL = "translation_validation"

DIST = [10.0 ** (e / 2.0) for e in range(-6, 7)]  # 1e-3 .. 1e3, 13 values
KS = [complex(a, b) for a in (0.3, 2.5, 40.0) for b in (0.0, 0.2, -0.1)]
OMEGAS = [0.1, 3.0]


def directions26():
    d = [np.array(v, dtype=float) for v in itertools.product((-1, 0, 1), repeat=3) if any(v)]
    rot = np.array([[0.936, -0.283, 0.210], [0.303, 0.951, -0.068], [-0.180, 0.127, 0.975]])
    q, _ = np.linalg.qr(rot)
    return [q @ (x / np.linalg.norm(x)) for x in d]


def normals14():
    d = [np.array(v, dtype=float) for v in itertools.product((-1, 1), repeat=3)] + [np.array(v, dtype=float) for v in
                                                                                  ((1, 0, 0), (-1, 0, 0), (0, 1, 0), (0, -1, 0), (0, 0, 1), (0, 0, -1))]
    rot = np.array([[0.8, 0.36, -0.48], [-0.6, 0.48, -0.64], [0.0, 0.8, 0.6]])
    return [rot @ (x / np.linalg.norm(x)) for x in d]


def ref_kernel(base, k, x, nx, y, ny):
    """Closed form of kernel `base` for wavenumber parameter k at one pair; returns (value(s), magnitude of the largest term)."""
    if base.endswith("single_layer_far_field"):
        return np.array([np.exp(-1j * k * (x @ y)) / (4 * np.pi)]), abs(np.exp(-1j * k * (x @ y))) / (4 * np.pi)
    if base.endswith("double_layer_far_field"):
        return np.array([-1j * k * (x @ ny) * np.exp(-1j * k * (x @ y)) / (4 * np.pi)]), abs(k) * abs(np.exp(-1j * k * (x @ y))) / (4 * np.pi)
    d = x - y
    r = np.linalg.norm(d)
    if base.startswith("laplace"):
        G, dG, grow = 1 / (4 * np.pi * r), -1 / (4 * np.pi * r * r), 1.0
        kk = 0.0
    elif base.startswith("modified"):
        w = k
        G = np.exp(-w * r) / (4 * np.pi * r)
        dG = G * (-w - 1 / r)
        kk = w
    else:
        G = np.exp(1j * k * r) / (4 * np.pi * r)
        dG = G * (1j * k - 1 / r)
        kk = abs(k)
    gradx = dG * d / r
    amp = abs(G)
    if base.endswith("single_layer"):
        return np.array([G]), amp
    if base.endswith("adjoint_double_layer"):
        return np.array([nx @ gradx]), amp * (kk + 1 / r)
    if base.endswith("double_layer"):
        return np.array([-(ny @ gradx)]), amp * (kk + 1 / r)
    if base.endswith("gradient"):
        return gradx, amp * (kk + 1 / r)
    if base.endswith("single_layer_far_field"):
        return np.array([np.exp(-1j * k * (x @ y)) / (4 * np.pi)]), abs(np.exp(-1j * k * (x @ y))) / (4 * np.pi)
    if base.endswith("double_layer_far_field"):
        return np.array([-1j * k * (x @ ny) * np.exp(-1j * k * (x @ y)) / (4 * np.pi)]), abs(k) * abs(np.exp(-1j * k * (x @ y))) / (4 * np.pi)
    raise ValueError(base)


NUMBA_NAME = {
    "laplace_single_layer": "laplace_single_layer_regular", "laplace_double_layer": "laplace_double_layer_regular",
    "laplace_adjoint_double_layer": "laplace_adjoint_double_layer_regular",
    "modified_helmholtz_real_single_layer": "modified_helmholtz_single_layer_regular",
    "modified_helmholtz_real_double_layer": "modified_helmholtz_double_layer_regular",
    "modified_helmholtz_real_adjoint_double_layer": "modified_helmholtz_adjoint_double_layer_regular",
    "helmholtz_single_layer": "helmholtz_single_layer_regular", "helmholtz_double_layer": "helmholtz_double_layer_regular",
    "helmholtz_adjoint_double_layer": "helmholtz_adjoint_double_layer_regular",
    "helmholtz_single_layer_far_field": "helmholtz_far_field_single_layer", "helmholtz_double_layer_far_field": "helmholtz_far_field_double_layer",
}


def parse_select_cl_kernel():
    """The {numba kernel type: OpenCL kernel name} table of opencl_kernels.py, read with ast (the module imports pyopencl)."""
    import ast

    from bex.core import REPO

    tree = ast.parse(open(os.path.join(REPO, "bempp_cl/core/opencl_kernels.py")).read())
    for node in ast.walk(tree):
        if isinstance(node, ast.FunctionDef) and node.name == "select_cl_kernel":
            for sub in ast.walk(node):
                if isinstance(sub, ast.Assign) and getattr(sub.targets[0], "id", None) == "kernels":
                    return ast.literal_eval(sub.value)
    raise RuntimeError("select_cl_kernel table not found")


def inputs_for(base, quick):
    """List of (k parameter, x, nx, y, ny) single-pair inputs."""
    dirs = directions26()
    nrm = normals14()
    far = "far_field" in base
    if base.startswith("laplace"):
        params = [None]
    elif base.startswith("modified"):
        params = OMEGAS
    else:
        params = KS
    dist = DIST if not quick else DIST[::2]
    out = []
    i = 0
    for k in params:
        for r in dist:
            if k is not None and not base.startswith("modified") and abs(np.imag(k)) * r > 60:
                continue
            if far and (r > 10 or (k is not None and abs(k) * r > 200)):
                continue
            for u in (dirs if not quick else dirs[::3]):
                nx, ny = nrm[i % 14], nrm[(3 * i + 5) % 14]
                i += 1
                if far:
                    x = dirs[(i * 7) % 26]  # unit direction
                    y = r * u
                else:
                    x = np.array([0.13, -0.27, 0.41]) * min(1.0, r)
                    y = x - r * u
                out.append((k, x, nx, y, ny))
    return out


def run_opencl(lib, name, lanes, nres, batch, dtype):
    """Evaluate one OpenCL kernel on a batch of `lanes` inputs sharing test point, test normal and parameters."""
    k, x, nx = batch[0][0], batch[0][1], batch[0][2]
    inp = np.zeros(6 + 6 * lanes, dtype=dtype)
    inp[:3], inp[3:6] = x, nx
    for l, (_, _, _, y, ny) in enumerate(batch):
        inp[6 + 6 * l: 9 + 6 * l] = y
        inp[9 + 6 * l: 12 + 6 * l] = ny
    if k is None:
        kp = np.zeros(2, dtype=dtype)
    elif np.iscomplexobj(np.asarray(k)) or isinstance(k, complex):
        kp = np.array([np.real(k), np.imag(k)], dtype=dtype)
    else:
        kp = np.array([k, 0.0], dtype=dtype)
    out = np.full(nres * lanes, np.nan, dtype=dtype)
    f = getattr(lib, "w_" + name)
    f.restype = None
    f(inp.ctypes.data_as(ctypes.c_void_p), kp.ctypes.data_as(ctypes.c_void_p), out.ctypes.data_as(ctypes.c_void_p))
    return out.reshape(nres, lanes)


def to_complex(base, res):
    """(nvalues, lanes) complex/real array from the raw (nres, lanes) output."""
    if res.shape[0] == 1:
        return res.astype(np.float64)
    if res.shape[0] == 2:
        return (res[0] + 1j * res[1])[None, :]
    return np.array([res[2 * c] + 1j * res[2 * c + 1] for c in range(3)])


def check_kernel(ctx, lib, NK, FH, name, lanes, nres, precision, quick, table_rev):
    base = name.rsplit("_", 1)[0]
    dtype = np.float64 if precision == 1 else np.float32
    eps = 2.3e-16 if precision == 1 else 1.2e-7
    ins = inputs_for(base, quick)
    # group by (k, x, nx): lanes share the test point, every lane carries a different trial point / normal
    groups = {}
    for it in ins:
        groups.setdefault((repr(it[0]), tuple(it[1]), tuple(it[2])), []).append(it)
    flat = []
    for key, lst in groups.items():
        flat += lst
    # re-batch so that each batch shares k only (test point/normal of the first element is used for all lanes)
    byk = {}
    for it in ins:
        byk.setdefault(repr(it[0]), []).append(it)
    worst, worst_case = 0.0, None
    worst_nb = 0.0
    n_eval = 0
    for kkey, lst in byk.items():
        for b0 in range(0, len(lst), lanes):
            batch = lst[b0: b0 + lanes]
            if len(batch) < lanes:
                batch = batch + lst[: lanes - len(batch)]
            # all lanes use the test point / normal of the first entry; rebuild the per-lane trial data accordingly
            k, x, nx = batch[0][0], batch[0][1], batch[0][2]
            batch = [(k, x, nx, (x - (b[1] - b[3])) if "far_field" not in base else b[3], b[4]) for b in batch]
            # both sides see the inputs as representable in the precision under test (input rounding is not part of the kernels)
            rd = lambda a: np.asarray(a, dtype=dtype).astype(np.float64)  # noqa: E731
            if k is not None:
                k = complex(rd(np.real(k)), rd(np.imag(k))) if isinstance(k, complex) else float(rd(k))
            batch = [(k, rd(b[1]), rd(b[2]), rd(b[3]), rd(b[4])) for b in batch]
            x, nx = batch[0][1], batch[0][2]
            got = to_complex(base, run_opencl(lib, name, lanes, nres, batch, dtype))
            # Numba kernel of the same meaning (always double precision)
            Y = np.array([b[3] for b in batch]).T.copy()
            NY = np.array([b[4] for b in batch]).T.copy()
            kp = np.array([] if k is None else ([k] if base.startswith("modified") else [np.real(k), np.imag(k)]), dtype=np.float64)
            if base in NUMBA_NAME:
                nb = np.asarray(getattr(NK, NUMBA_NAME[base])(np.ascontiguousarray(x), Y, np.ascontiguousarray(nx), NY, kp))[None, :]
            else:
                # the library calls this kernel with many target points at once: x is passed as the last of three targets (the first two
                # are other points), so that per-call work buffers that leak from one target to the next are seen
                tg = np.ascontiguousarray(np.array([x + np.array([0.37, -0.11, 0.23]) * (1 + np.linalg.norm(x)), 0.5 * x - 0.3, x]).T)
                inter = np.asarray(FH.helmholtz_kernel(tg, Y, kp, np.dtype("float64"), np.dtype("complex128"))).reshape(3, lanes, 4)
                nb = inter[2, :, 1:4].T
                one = np.asarray(FH.helmholtz_kernel(np.ascontiguousarray(x.reshape(3, 1)), Y, kp, np.dtype("float64"), np.dtype("complex128"))).reshape(lanes, 4)
                if not np.array_equal(one, inter[2]):
                    ctx.violation("kernel/helmholtz_gradient/numba-batch", {"sub": "kernel", "kernel": name, "k": k, "x": x.tolist()},
                                  "fmm.helpers.helmholtz_kernel gives different values for a target point evaluated alone and as the third of three targets "
                                  "(max diff %.3e)" % float(np.max(np.abs(one - inter[2]))))
            for l, b in enumerate(batch):
                ref, amp = ref_kernel(base, k, b[1], b[2], b[3], b[4])
                r = np.linalg.norm(b[1] - b[3]) if "far_field" not in base else abs(b[1] @ b[3])
                kk = 0.0 if k is None else abs(k)
                tol = 60 * eps * (1 + kk * r) * amp + 1e3 * float(np.finfo(dtype).tiny)
                e1 = float(np.max(np.abs(got[:, l] - ref))) / (tol if tol > 0 else 1.0)
                e2 = float(np.max(np.abs(got[:, l] - nb[:, l]))) / (tol if tol > 0 else 1.0)
                n_eval += 1
                if max(e1, e2) > worst or (not np.isfinite(max(e1, e2)) and worst_case is None):
                    worst = max(e1, e2) if np.isfinite(max(e1, e2)) else np.inf
                    worst_case = {"k": k, "x": b[1].tolist(), "nx": b[2].tolist(), "y": b[3].tolist(), "ny": b[4].tolist(), "lane": l,
                                  "opencl": [complex(z) for z in got[:, l]], "numba": [complex(z) for z in nb[:, l]], "closed_form": [complex(z) for z in ref],
                                  "vs": "closed-form" if e1 >= e2 else "numba"}
    ctx.evaluations += n_eval
    ctx.sub["kernel-pairs"] = ctx.sub.get("kernel-pairs", 0) + n_eval
    ctx.distinct.add((name, precision))
    ctx.cover("kernel_functions", name)
    ctx.observe("kernel-discrepancy/tolerance(%s)" % ("double" if precision else "single"), worst, 1.0)
    cplx = worst_case is not None and worst_case["k"] is not None and np.imag(worst_case["k"]) != 0
    if worst > 1.0:
        case = {"sub": "kernel", "kernel": name, "precision": precision, "worst": worst_case}
        ctx.violation("kernel/%s/%s/%s" % (base, name.rsplit("_", 1)[1], "double" if precision else "single") + ("/complex-k" if cplx else ""), case,
                      "OpenCL %s differs from the %s value by %.3g x tolerance" % (name, worst_case["vs"], worst))
    return n_eval


def check_shapesets(ctx, lib, precision):
    from bempp_cl.api.space import shapesets as S

    dtype = np.float64 if precision == 1 else np.float32
    n = 10
    pts = np.array([[i / n, j / n] for i in range(n + 1) for j in range(n + 1 - i)]).T  # 66 points
    table = [("p0_discontinuous", S._p0_shapeset_evaluate, 1, 1), ("p1_discontinuous", S._p1_disc_shapeset_evaluate, 1, 3), ("rwg0", S._rwg0_shapeset_evaluate, 2, 3),
             ("snc0", S._SHAPESETS["snc0"]["evaluate"], 2, 3)]
    for name, fn, dim, nshape in table:
        ref = np.asarray(fn(np.ascontiguousarray(pts.astype(np.float64))))  # (dim, nshape, N)
        f = getattr(lib, "w_%s_evaluate" % name)
        f.restype = None
        worst = 0.0
        for q in range(pts.shape[1]):
            inp = np.array(pts[:, q], dtype=dtype)
            out = np.full(6, np.nan, dtype=dtype)
            f(inp.ctypes.data_as(ctypes.c_void_p), out.ctypes.data_as(ctypes.c_void_p))
            if dim == 1:
                got = out[:nshape].astype(float)[None, :]
            else:
                got = out[: 2 * nshape].astype(float).reshape(nshape, 2).T
            worst = max(worst, float(np.max(np.abs(got - ref[:, :, q]))))
            ctx.evaluations += 1
        ctx.distinct.add(("shapeset", name, precision))
        ctx.cover("shapesets", name)
        tol = 1e-15 if precision == 1 else 2e-7
        ctx.observe("shapeset-discrepancy", worst, tol)
        if worst > tol:
            ctx.violation("shapeset/%s/%s" % (name, "double" if precision else "single"), {"sub": "shapeset", "shapeset": name, "precision": precision},
                          "OpenCL %s_evaluate differs from the Numba shapeset by %.3e" % (name, worst))


def run(ctx):
    import bempp_cl.core.numba_kernels as NK
    import bempp_cl.api.fmm.helpers as FH

    quick = ctx.tier == "quick"
    table = parse_select_cl_kernel()
    if set(table.values()) != set(NUMBA_NAME):
        raise RuntimeError("select_cl_kernel table and the harness mapping disagree: %s" % sorted(set(table.values()) ^ set(NUMBA_NAME)))

    class _D:
        assembly_type = "default_scalar"

    for ktype, clname in table.items():
        d = _D()
        d.kernel_type = ktype
        fn = NK.select_numba_kernels(d, mode="regular")[1]
        if getattr(fn, "py_func", fn).__name__ != NUMBA_NAME[clname]:
            raise RuntimeError("kernel type %s: Numba uses %s, harness compares OpenCL %s with %s" % (ktype, fn, clname, NUMBA_NAME[clname]))
    # the numba side of the table: kernel type -> numba function, from select_numba_kernels' own dictionaries
    programs = 0
    disagreements = 0
    for precision in (1, 0):
        lib, kernels, undefined = ocl.build(os.path.join(ctx.work, "ocl"), precision)
        if "_Z" in undefined:
            raise RuntimeError("unresolved OpenCL builtins: %s" % undefined)
        for name, lanes, nres in kernels:
            before = len(ctx.violations) + sum(v["count"] for v in ctx.known_hits.values())
            check_kernel(ctx, lib, NK, FH, name, lanes, nres, precision, quick, table)
            programs += 1
            disagreements += int(len(ctx.violations) + sum(v["count"] for v in ctx.known_hits.values()) > before)
        check_shapesets(ctx, lib, precision)
        programs += 4
    ctx.cov["kernel_functions_found_in_header"] = len(kernels)
    ctx.require(len(ctx.cov.get("kernel_functions", ())) == len(kernels) and len(kernels) >= 48, "every kernel function of kernels.h executed (%d)" % len(kernels))
    ctx.require(set(ctx.cov.get("shapesets", ())) == {"p0_discontinuous", "p1_discontinuous", "rwg0", "snc0"}, "all four shapeset headers executed")
    ctx.samples.append({"kernel": "helmholtz_double_layer_vec8", "lanes": 8, "inputs_per_lane": "different trial point and normal in every lane",
                        "distance_lattice": DIST, "wavenumbers": [repr(k) for k in KS]})
    ctx.assumptions += ["OpenCL C compiled for the host by clang -x cl; builtins (sqrt, rsqrt, exp, cos, sin, dot, length, distance) provided through libm",
                        "tolerance 60 eps (1 + |k| r) x magnitude of the largest term (eps = 2.3e-16 double, 1.2e-7 single)",
                        "device compilers, native_* variants and the work-group logic of the .cl assembly kernels are not reachable without an OpenCL runtime"]
    return ctx.finish(rule="programs = every inline kernel function discovered in kernels.h (12 kernels x {novec, vec4, vec8, vec16}) x {double, single} + 4 shapeset "
                      "headers x 2; inputs = distance lattice 1e-3..1e3 x 26 directions x 14 normals x wavenumber lattice, a different input in every vector lane; "
                      "each value compared with the Numba kernel and with an independent closed form",
                      extra={"programs": programs, "disagreements_checked": disagreements})


def replay(ctx, case):
    import bempp_cl.core.numba_kernels as NK
    import bempp_cl.api.fmm.helpers as FH

    precision = case.get("precision", 1)
    lib, kernels, _ = ocl.build(os.path.join(ctx.work, "ocl"), precision)
    if case["sub"] == "shapeset":
        check_shapesets(ctx, lib, precision)
        return
    for name, lanes, nres in kernels:
        if name == case["kernel"]:
            check_kernel(ctx, lib, NK, FH, name, lanes, nres, precision, False, None)
