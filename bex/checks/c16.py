"""C16 - assembly results are independent of thread count and scheduling.

Layer A (E1): colouring invariant over the space lattice of C09 (+ localised / barycentric forms).
Layer B (E3): for every parallel kernel reached by a set of small real operators, the launches the library
              really makes are captured, the per-iteration access traces of the kernels' Python source are
              recorded, ALL pairs of iterations of every launch are checked for conflicting accesses, ALL
              interleavings of 2 (and 3) iterations are explored at load/store granularity, and model schedules
              with a bounded number of preemptions are replayed on the real code under a baton scheduler.
Layer C     : free-running compiled kernels with 1, 2, 7, 16 threads (sampling of OS schedules, cross-check).
"""

import itertools

import numpy as np

from bex import interleave as IL
from bex import ops
from bex import spaces as SP
from bex.checks import c09
from bex.models import basis_ref as B
from bex.models import meshes

LEVEL = "model_checking"
THREADS = 16


# ---------------------------------------------------------------------------
# Layer A
# ---------------------------------------------------------------------------
def check_colouring(ctx, meshname, spec, space, label):
    case = {"layer": "A", "mesh": meshname, "space": SP.spec_json(spec), "form": label}
    sig = "colouring/%s/%s" % (spec["kind"], label)
    sup = np.asarray(space.support, dtype=bool)
    try:
        cm = np.asarray(space.color_map)
        sorted_idx, indptr = space.get_elements_by_color()
    except Exception as exc:  # noqa: BLE001
        ctx.violation(sig + "/exception:" + type(exc).__name__, case, repr(exc))
        return
    l2g = np.asarray(space.local2global)
    if not (np.all(cm[sup] >= 0) and np.all(cm[~sup] == -1)):
        ctx.violation(sig + "/partition", case, "colours do not partition exactly the support")
        return
    listed = []
    for c in range(len(indptr) - 1):
        els = [int(x) for x in sorted_idx[indptr[c]: indptr[c + 1]]]
        listed += els
        if any(cm[t] != c for t in els):
            ctx.violation(sig + "/by-color", case, "get_elements_by_color disagrees with color_map")
            return
        dofs = {}
        for t in els:
            for g in set(int(x) for x in l2g[t]):
                if g in dofs:
                    ctx.violation(sig + "/shared-dof", dict(case, elements=[dofs[g], t], dof=g, color=c),
                                  "elements %d and %d have colour %d and share global dof %d" % (dofs[g], t, c, g))
                    return
                dofs[g] = t
        if len(els) > 1:
            ctx.cover("multi_element_colours", None)
    if sorted(listed) != [int(x) for x in np.flatnonzero(sup)]:
        ctx.violation(sig + "/by-color", case, "get_elements_by_color does not list the support exactly once")
    ctx.case((meshname, SP.spec_key(spec), label), sub="colouring")


def layer_a(ctx):
    for name, kinds, full, swopts in c09.plan(ctx):
        mesh = meshes.get(name, ctx.seed)
        grid = SP.make_grid(mesh)
        sels = c09.selections(mesh, full)
        if ctx.tier == "quick" and name == "cube12":
            sels = [s for s in sels if s[0] == "all" or len(s[1]) in (1, 2, 5)]
        for spec in c09.spaces_for(mesh, sels, kinds, swopts[:1]):
            if spec["sel"][0] == "elements" and spec["kind"] in SP.BARY_KINDS and mesh[1].shape[1] > 5:
                continue
            try:
                space = SP.make_space(grid, spec)
            except Exception:  # noqa: BLE001
                ctx.declined += 1  # construction refusals are judged by C09
                continue
            if c09_empty(mesh, spec):
                continue
            check_colouring(ctx, name, spec, space, "space")
            if (np.asarray(space.local_multipliers)[np.asarray(space.support, dtype=bool)] == 0).any():
                ctx.cover("zero_multiplier_spaces", spec["kind"])
            check_colouring(ctx, name, spec, space.localised_space, "localised")
            if spec["kind"] in ("DP0", "P1", "RWG", "SNC") and spec["sel"][0] != "elements":
                try:
                    b = space.barycentric_representation()
                except Exception:  # noqa: BLE001
                    continue
                check_colouring(ctx, name, spec, b, "barycentric")
                check_colouring(ctx, name, spec, b.localised_space, "barycentric-localised")


def c09_empty(mesh, spec):
    S = B.selection(mesh, spec.get("sel", ("all",)))
    k = spec["kind"]
    if k in ("P1", "DUAL0"):
        return len(B.p1_expected(mesh, S, bool(spec.get("inc")), bool(spec.get("trunc")))[0]) == 0
    if k in ("RWG", "SNC", "BC", "RBC"):
        return len(B.rwg_expected(mesh, S, bool(spec.get("inc")), bool(spec.get("trunc")))[0]) == 0
    return False


# ---------------------------------------------------------------------------
# Layer B
# ---------------------------------------------------------------------------
HARNESSES = [
    # (id, mesh, operator, test space, trial space, wavenumber)
    ("V-p1-octa", "octa", ("laplace", "single_layer"), {"kind": "P1"}, {"kind": "P1", "sel": ("segments", (1,)), "inc": True}, None),
    ("K-dp1-twotet", "twotet", ("laplace", "double_layer"), {"kind": "DP1", "sel": ("segments", (0, 2))}, {"kind": "DP0", "sel": ("segments", (1,))}, None),
    ("W-p1-cube12seg", "cube12", ("laplace", "hypersingular"), {"kind": "P1", "sel": ("segments", (1, 3)), "inc": True}, {"kind": "P1", "sel": ("segments", (1,)), "inc": True}, None),
    ("Wk-p1-octa", "octa", ("helmholtz", "hypersingular"), {"kind": "P1"}, {"kind": "P1", "sel": ("segments", (2,)), "inc": True}, 1.3 + 0.2j),
    ("Wm-p1-tet", "tet", ("modified_helmholtz", "hypersingular"), {"kind": "P1"}, {"kind": "P1", "sel": ("segments", (1,)), "inc": True}, 0.9),
    ("E-rwg-octa", "octa", ("maxwell", "electric_field"), {"kind": "SNC"}, {"kind": "RWG", "sel": ("segments", (1,)), "inc": True}, 1.1),
    ("H-rwg-tet", "tet", ("maxwell", "magnetic_field"), {"kind": "SNC"}, {"kind": "RWG", "sel": ("segments", (0,)), "inc": True}, 0.8 + 0.1j),
    ("Hk-dp0-tet", "tet", ("helmholtz", "single_layer"), {"kind": "DP0"}, {"kind": "DP0", "sel": ("segments", (1,))}, 1.0),
    ("I-p1-fan5", "fan5", ("sparse", "identity"), {"kind": "P1", "inc": True}, {"kind": "P1", "inc": True}, None),
    ("I-rwg-octa", "octa", ("sparse", "identity"), {"kind": "SNC"}, {"kind": "RWG"}, None),
    ("LB-p1-tet", "tet", ("sparse", "laplace_beltrami"), {"kind": "P1"}, {"kind": "P1"}, None),
]
POTENTIALS = [
    ("pot-V-p1", "tet", ("laplace", "single_layer"), {"kind": "P1"}, None, False),
    ("pot-K-dp0", "octa", ("helmholtz", "double_layer"), {"kind": "DP0", "sel": ("segments", (1,))}, 1.2, False),
    ("pot-E-rwg", "tet", ("maxwell", "electric_field"), {"kind": "RWG"}, 1.1, False),
    ("pot-H-rwg", "tet", ("maxwell", "magnetic_field"), {"kind": "RWG"}, 0.9, False),
    ("ff-V-dp0", "tet", ("helmholtz", "single_layer"), {"kind": "DP0"}, 1.4, True),
    ("ff-E-rwg", "tet", ("maxwell", "electric_field"), {"kind": "RWG"}, 1.1, True),
    ("ff-H-rwg", "tet", ("maxwell", "magnetic_field"), {"kind": "RWG"}, 1.1, True),
]


class Recorder:
    """Captures the real launches of the parallel kernels while the library assembles an operator."""

    def __init__(self):
        import bempp_cl.core.numba_kernels as NK

        self.NK = NK
        self.launches = []
        self._orig = NK.select_numba_kernels

    def __enter__(self):
        rec = self

        def patched(desc, mode="regular"):
            f, k = rec._orig(desc, mode)

            def wrapper(*args, **kwargs):
                rec.launches.append(IL.Launch(getattr(f, "py_func", f).__name__, f, args, kwargs))
                return f(*args, **kwargs)

            return wrapper, k

        self.NK.select_numba_kernels = patched
        return self

    def __exit__(self, *exc):
        self.NK.select_numba_kernels = self._orig
        return False


def capture(ctx, harness):
    hid, meshname, (family, opname), tspec, dspec, k = harness
    mesh = meshes.get(meshname, ctx.seed)
    grid = SP.make_grid(mesh)
    test = SP.make_space(grid, dict({"sel": ("all",)}, **tspec))
    trial = SP.make_space(grid, dict({"sel": ("all",)}, **dspec))
    par = ops.params(1, 1)
    with Recorder() as rec:
        op = ops.boundary(family, opname, trial, trial, test, k=k, par=par)
        A = op.weak_form()
        dense = np.asarray(A.to_dense())
    return rec.launches, dense, rec.NK


def capture_potential(ctx, harness):
    import bempp_cl.api as bem

    hid, meshname, (family, opname), sspec, k, far = harness
    mesh = meshes.get(meshname, ctx.seed)
    grid = SP.make_grid(mesh)
    space = SP.make_space(grid, dict({"sel": ("all",)}, **sspec))
    pts = np.array([[1.7, -0.4, 0.9], [0.3, 2.2, -0.5], [-1.1, 0.6, 1.8]]).T
    if far:
        pts = pts / np.linalg.norm(pts, axis=0)
    par = ops.params(1, 1)
    with Recorder() as rec:
        pot = ops.potential(family, opname, space, pts, k=k, par=par, far_field=far)
        coeffs = np.cos(1.0 + np.arange(space.global_dof_count))
        val = pot.evaluate(bem.GridFunction(space, coefficients=coeffs))
    return rec.launches, np.asarray(val), rec.NK


FMM_HELPERS = [
    ("fmm-near-evaluate-laplace", "fan4", "laplace", [], "evaluate"),
    ("fmm-near-sparse-helmholtz", "tet", "helmholtz", [1.1, 0.2], "sparse"),
    ("fmm-dense-evaluator-modified", "tet", "modified_helmholtz", [0.9], "dense"),
]


def capture_fmm_helper(ctx, harness):
    """The three parallel near-field helpers of fmm/helpers.py, called the way get_local_interaction_operator / ExafmmInterface call them."""
    import bempp_cl.api as bem
    import bempp_cl.api.fmm.helpers as FH
    from bempp_cl.api.integration.triangle_gauss import rule

    hid, meshname, mode, kp, how = harness
    mesh = meshes.get(meshname, ctx.seed)
    grid = SP.make_grid(mesh)
    launches = []
    names = ["numba_evaluate_local_interactions", "get_local_interaction_matrix_impl", "dense_interaction_evaluator_impl"]
    orig = {n: getattr(FH, n) for n in names}

    def wrap(n):
        f = orig[n]

        def w(*args, **kwargs):
            launches.append(IL.Launch(n, f, args, kwargs))
            return f(*args, **kwargs)

        return w

    old_near = bem.GLOBAL_PARAMETERS.fmm.near_field_representation
    for n in names:
        setattr(FH, n, wrap(n))
    try:
        pts, _ = rule(1)
        if how == "dense":
            cloud = np.asarray(grid.map_to_point_cloud(1))
            charges = np.cos(np.arange(len(cloud)) + 0.4)
            FH.dense_interaction_evaluator(cloud, cloud + 0.05, charges, mode, np.array(kp, dtype=np.float64))
        else:
            bem.GLOBAL_PARAMETERS.fmm.near_field_representation = how
            op = FH.get_local_interaction_operator(grid, pts, mode, np.array(kp, dtype=np.float64), "double", mode == "helmholtz", "numba")
            x = np.cos(np.arange(op.shape[1]) + 0.4)
            op @ x
    finally:
        for n in names:
            setattr(FH, n, orig[n])
        bem.GLOBAL_PARAMETERS.fmm.near_field_representation = old_near
    return launches, FH


def analyse_launch(ctx, hid, li, launch, module, quick):
    """Race analysis on all iteration pairs + exhaustive interleavings + replay on the real code."""
    case = {"layer": "B", "harness": hid, "launch": li, "kernel": launch.name}
    sig = "schedule/%s" % launch.name
    try:
        tracer, final, ret = IL.record(launch, module)
    except Exception as exc:  # noqa: BLE001
        raise RuntimeError("cannot trace %s/%s: %r" % (hid, launch.name, exc))
    ctx.cover("kernels_traced", launch.name)
    iters = sorted(tracer.traces)
    nev = sum(len(v) for v in tracer.traces.values())
    conflicts, pairs = IL.races(tracer)
    ctx.cover("iteration_pairs_checked", None, pairs)
    ctx.case((hid, li, "races"), sub="race-analysis", nontrivial=pairs > 0)
    if conflicts:
        l, i, j, cell = conflicts[0]
        ctx.violation(sig + "/data-race", dict(case, iterations=[int(i[1]) if isinstance(i, tuple) else int(i), int(j[1]) if isinstance(j, tuple) else int(j)], cell=list(cell)),
                      "iterations %s and %s of one launch both access %s (at least one store): %d conflicting pairs" % (i, j, cell, len(conflicts)))
    if len(iters) < 2:
        return nev
    # choose iterations: the first two (three) and, if there is a conflict, the conflicting pair
    groups = [iters[:2]]
    if len(iters) >= 3:
        groups.append(iters[-2:])
    if conflicts:
        l, i, j, cell = conflicts[0]
        groups.insert(0, [(l, i), (l, j)])
    budget3 = 60 if quick else 110
    if len(iters) >= 3 and max(len(tracer.traces[i]) for i in iters[:3]) <= budget3:
        groups.append(iters[:3])
    for grp in groups:
        traces = [tracer.traces[i] for i in grp]
        seqmem, cells = IL.sequential_memory(traces, tracer.init)
        states, trans, terminals, complete = IL.explore(traces, tracer.init)
        ctx.states += states
        ctx.transitions += trans
        if not complete:
            ctx.cap("interleaving exploration of %s/%s capped at %d states" % (hid, launch.name, states))
        ctx.case((hid, li, tuple(grp)), sub="interleaving-%d-threads" % len(grp), nontrivial=True,
                 sample=dict(case, iterations=[list(g) for g in grp], events=[len(t) for t in traces], states=states, transitions=trans)
                 if len(ctx.samples) < 4 else None)
        ctx.cover("distinct_terminal_memories", None, len(terminals))
        for mem, sched in terminals.items():
            if mem != seqmem and not _same(mem, seqmem):
                ctx.violation(sig + "/schedule-dependent-result", dict(case, iterations=[list(g) for g in grp], schedule=list(sched)),
                              "an interleaving of %d iterations ends in a memory different from the sequential one" % len(grp))
                break
        # replay model schedules on the real code
        bound = 1 if quick else 2
        scheds = IL.schedules_with_preemptions([len(t) for t in traces], bound, cap=60 if quick else 600)
        if len(grp) == 2:
            extra = [s for s in terminals.values() if not _same_sched(s, scheds)]
            scheds = scheds + [tuple(s) for s in extra[:3]]
        step = max(1, len(scheds) // (12 if quick else 120))
        for s in scheds[::step]:
            pred = IL.simulate(traces, s, tracer.init)
            fin, observed, _ = IL.replay(launch, module, grp, s)
            fin2, observed2, _ = (IL.replay(launch, module, grp, s) if ctx.traces_validated % 10 == 0 else (fin, observed, None))
            ctx.traces_validated += 1
            want = [(t,) + traces[t][k][:3] for t, k in _sched_positions(s)]
            if observed != [(t, op, nm, c) for (t, op, nm, c) in want]:
                raise RuntimeError("replay of %s/%s diverged from the recorded trace" % (hid, launch.name))
            if observed2 != observed or any(not np.array_equal(fin[k], fin2[k]) for k in fin):
                raise RuntimeError("replaying the same schedule twice gave different observations")
            for (nm, c), val in pred.items():
                got = np.asarray(fin[nm]).reshape(-1)[c]
                if not (got == val or (np.isnan(got) and np.isnan(val))):
                    ctx.violation(sig + "/replay-mismatch", dict(case, schedule=list(s)), "real code under the schedule gives %r in %s[%d], model predicts %r" % (got, nm, c, val))
                    return nev
    return nev


def _same(a, b):
    return len(a) == len(b) and all((x == y) or (x != x and y != y) for x, y in zip(a, b))


def _same_sched(s, scheds):
    return tuple(s) in set(scheds)


def _sched_positions(s):
    pcs = {}
    for t in s:
        k = pcs.get(t, 0)
        yield t, k
        pcs[t] = k + 1


def layer_b(ctx):
    quick = ctx.tier == "quick"
    hs = HARNESSES if not quick else HARNESSES
    for h in hs:
        try:
            launches, dense, module = capture(ctx, h)
        except Exception as exc:  # noqa: BLE001
            ctx.violation("schedule/capture/exception:%s" % type(exc).__name__, {"layer": "B", "harness": h[0]}, repr(exc))
            continue
        for li, launch in enumerate(launches):
            analyse_launch(ctx, h[0], li, launch, module, quick)
    for h in FMM_HELPERS:
        try:
            launches, module = capture_fmm_helper(ctx, h)
        except Exception as exc:  # noqa: BLE001
            ctx.violation("schedule/capture/exception:%s" % type(exc).__name__, {"layer": "B", "harness": h[0]}, repr(exc))
            continue
        for li, launch in enumerate(launches):
            analyse_launch(ctx, h[0], li, launch, module, quick)
    for h in POTENTIALS:
        try:
            launches, val, module = capture_potential(ctx, h)
        except Exception as exc:  # noqa: BLE001
            ctx.violation("schedule/capture/exception:%s" % type(exc).__name__, {"layer": "B", "harness": h[0]}, repr(exc))
            continue
        for li, launch in enumerate(launches):
            analyse_launch(ctx, h[0], li, launch, module, quick)


def layer_b_histories(ctx):
    """Thread-count histories: the launches an assembly makes must be race-free whatever thread counts the same space objects were used
    with before (per-space caches - colour map, sorted element lists - are filled lazily at first use).  E2 over sequences of
    'assemble with t threads' on one pair of space objects; the launches of the last step (t >= 2) are race-checked pairwise."""
    import collections

    import numba

    quick = ctx.tier == "quick"
    maxt = numba.config.NUMBA_NUM_THREADS
    counts = [t for t in (1, 2, 16) if t <= maxt]
    hs = [h for h in HARNESSES if h[0] in ("V-p1-octa", "E-rwg-octa", "I-p1-fan5")] if quick else HARNESSES
    depth = 2 if quick else 3
    before = numba.get_num_threads()
    try:
        for h in hs:
            hid, meshname, (family, opname), tspec, dspec, k = h
            mesh = meshes.get(meshname, ctx.seed)
            seen = set()
            frontier = collections.deque([()])
            while frontier:
                hist = frontier.popleft()
                if len(hist) >= depth:
                    continue
                for t in counts:
                    h2 = hist + (t,)
                    canon = (frozenset(h2), t)
                    if canon in seen:
                        continue
                    seen.add(canon)
                    frontier.append(h2)
                    ctx.states += 1
                    if t < 2:
                        continue  # a launch executed by one thread cannot race; it matters only as a prefix
                    grid = SP.make_grid(mesh)
                    test = SP.make_space(grid, dict({"sel": ("all",)}, **tspec))
                    trial = SP.make_space(grid, dict({"sel": ("all",)}, **dspec))
                    par = ops.params(1, 1)
                    launches = []
                    for idx, nt in enumerate(h2):
                        numba.set_num_threads(nt)
                        if idx == len(h2) - 1:
                            with Recorder() as rec:
                                ops.boundary(family, opname, trial, trial, test, k=k, par=par).weak_form()
                            launches, module = rec.launches, rec.NK
                        else:
                            ops.boundary(family, opname, trial, trial, test, k=k, par=par).weak_form()
                    ctx.transitions += len(h2)
                    case = {"layer": "B-history", "harness": hid, "thread_history": list(h2)}
                    ctx.case((hid, "thread-history", h2), sub="thread-history", nontrivial=len(h2) > 1, sample=case if len(ctx.samples) < 5 and len(h2) > 1 else None)
                    for li, launch in enumerate(launches):
                        tracer, final, ret = IL.record(launch, module)
                        conflicts, pairs = IL.races(tracer)
                        ctx.cover("iteration_pairs_checked_after_histories", None, pairs)
                        if conflicts:
                            l, i, j, cell = conflicts[0]
                            ctx.violation("schedule/%s/data-race-after-thread-history" % launch.name, dict(case, launch=li, cell=list(cell)),
                                          "after assemblies with %s threads on the same spaces, a launch with %d threads runs iterations %s and %s that both "
                                          "access %s (%d conflicting pairs)" % (list(h2[:-1]), t, i, j, cell, len(conflicts)))
                            break
    finally:
        numba.set_num_threads(before)


# ---------------------------------------------------------------------------
# Layer C
# ---------------------------------------------------------------------------
def layer_c(ctx):
    import numba
    import bempp_cl.api as bem

    quick = ctx.tier == "quick"
    maxt = numba.config.NUMBA_NUM_THREADS
    counts = [t for t in (1, 2, 7, 16) if t <= maxt]
    mesh = meshes.get("cube12^" if quick else "cube12^^", ctx.seed)
    grid = SP.make_grid(mesh)
    p1 = SP.make_space(grid, {"kind": "P1"})
    p0 = SP.make_space(grid, {"kind": "DP0"})
    rwg = SP.make_space(grid, {"kind": "RWG"})
    snc = SP.make_space(grid, {"kind": "SNC"})
    seg = SP.make_space(grid, {"kind": "P1", "sel": ("segments", (1, 2)), "inc": True})
    pts = np.array([[2.1, 0.3, 0.4], [0.5, 0.5, 3.0], [-1.0, -1.0, -1.0], [0.4, 0.6, 0.5]]).T
    par = ops.params(3, 3)

    def jobs():
        yield "V", lambda: ops.dense(ops.boundary("laplace", "single_layer", p1, p1, p1, par=par))
        yield "K", lambda: ops.dense(ops.boundary("helmholtz", "double_layer", seg, p1, p0, k=1.2 + 0.1j, par=par))
        yield "W", lambda: ops.dense(ops.boundary("laplace", "hypersingular", p1, p1, seg, par=par))
        yield "E", lambda: ops.dense(ops.boundary("maxwell", "electric_field", rwg, rwg, snc, k=1.0, par=par))
        yield "I", lambda: ops.dense(ops.boundary("sparse", "identity", p1, p1, seg, par=par))
        yield "potV", lambda: np.asarray(ops.potential("laplace", "single_layer", p1, pts, par=par).evaluate(
            bem.GridFunction(p1, coefficients=np.sin(np.arange(p1.global_dof_count)))))
        yield "potE", lambda: np.asarray(ops.potential("maxwell", "electric_field", rwg, pts, k=1.0, par=par).evaluate(
            bem.GridFunction(rwg, coefficients=np.sin(np.arange(rwg.global_dof_count)))))

    ref = {}
    reps = 2 if quick else 3
    for rep in range(reps):
        for nt in counts:
            numba.set_num_threads(nt)
            for name, f in jobs():
                val = f()
                key = name
                ctx.case(("C", name, nt, rep), sub="free-running")
                if key not in ref:
                    ref[key] = val
                elif ref[key].tobytes() != val.tobytes():
                    ctx.violation("free-running/%s" % name, {"layer": "C", "operator": name, "threads": nt, "repeat": rep},
                                  "result with %d threads differs bitwise from the first run (max diff %.3e)" % (nt, float(np.max(np.abs(ref[key] - val)))))
    numba.set_num_threads(2)
    ctx.cov["thread_counts"] = counts


def run(ctx):
    only = getattr(ctx, "only", None)
    if not only or "A" in only:
        layer_a(ctx)
    if not only or "B" in only:
        layer_b(ctx)
    if not only or "H" in only:
        layer_b_histories(ctx)
    if not only or "C" in only:
        layer_c(ctx)
    if not only:
        need = {"default_scalar_regular_kernel", "default_scalar_singular_kernel", "laplace_hypersingular_regular", "laplace_hypersingular_singular",
                "helmholtz_hypersingular_regular", "helmholtz_hypersingular_singular", "modified_helmholtz_hypersingular_regular",
                "modified_helmholtz_hypersingular_singular", "maxwell_efield_regular_assembler", "maxwell_efield_singular",
                "maxwell_mfield_regular_assembler", "maxwell_mfield_singular", "default_sparse_kernel", "default_scalar_potential_kernel",
                "maxwell_efield_potential", "maxwell_mfield_potential", "maxwell_efield_far_field", "maxwell_mfield_far_field",
                "numba_evaluate_local_interactions", "get_local_interaction_matrix_impl", "dense_interaction_evaluator_impl"}
        got = set(ctx.cov.get("kernels_traced", ()))
        ctx.require(need <= got, "every parallel kernel of numba_kernels.py traced; missing: %s" % sorted(need - got))
        ctx.require(ctx.cov.get("multi_element_colours", 0) > 0, "colours with more than one element present")
        ctx.require(len(ctx.cov.get("zero_multiplier_spaces", ())) >= 2, "spaces with artificial zero-multiplier dofs present")
    ctx.assumptions += [
        "interleavings are over loads/stores of the shared result array and of arrays allocated in the kernel prologue, as executed "
        "by the kernels' own Python source; weak-memory effects and the OpenMP runtime are outside the model (layer C samples them)",
        "a data race is a pairwise property: all pairs of iterations of every captured launch are checked",
    ]
    return ctx.finish(
        rule="A: every space of the C09 lattice (+localised/barycentric forms): same colour => disjoint local2global entries; "
        "B: launches captured from real assemblies of 11 boundary operators and 7 potentials/far fields; all iteration pairs race-checked; "
        "explicit-state search over all load/store interleavings of 2 and 3 iterations; schedules with <=1 (2) preemptions replayed on the "
        "real py_func under a baton scheduler and compared with the model; B-history: sequences of assemblies with 1/2/16 threads on the same "
        "space objects (depth 2 / 3), launches of the last step race-checked; C: compiled kernels with 1/2/7/16 threads bitwise equal",
        extra={"harnesses": [h[0] for h in HARNESSES] + [h[0] for h in POTENTIALS] + [h[0] for h in FMM_HELPERS]},
    )


def replay(ctx, case):
    if case.get("layer") == "A":
        mesh = meshes.get(case["mesh"], ctx.seed)
        grid = SP.make_grid(mesh)
        spec = SP.spec_from_json(case["space"])
        space = SP.make_space(grid, spec)
        form = case.get("form", "space")
        if form == "localised":
            space = space.localised_space
        elif form.startswith("barycentric"):
            space = space.barycentric_representation()
            if form.endswith("localised"):
                space = space.localised_space
        check_colouring(ctx, case["mesh"], spec, space, form)
    elif case.get("layer") == "B":
        for h in FMM_HELPERS:
            if h[0] == case["harness"]:
                launches, module = capture_fmm_helper(ctx, h)
                analyse_launch(ctx, h[0], case["launch"], launches[case["launch"]], module, True)
        for h in HARNESSES:
            if h[0] == case["harness"]:
                launches, dense, module = capture(ctx, h)
                analyse_launch(ctx, h[0], case["launch"], launches[case["launch"]], module, True)
        for h in POTENTIALS:
            if h[0] == case["harness"]:
                launches, val, module = capture_potential(ctx, h)
                analyse_launch(ctx, h[0], case["launch"], launches[case["launch"]], module, True)
    elif case.get("layer") == "B-history":
        layer_b_histories(ctx)
    else:
        layer_c(ctx)
