"""C05 - Helmholtz-family operators are consistent with Laplace and with each other (E1 sweep)."""

import itertools

import numpy as np

from bex import ops
from bex import spaces as SP
from bex.models import basis_ref as B
from bex.models import meshes
from bex.models import topo_ref as R

LEVEL = "exploration"
TOL = 1e-11


def abs_integrals(mesh, space):
    v, e, d = mesh
    lam, w = B.tri_rule_deg4()
    loc = np.vstack([lam[1], lam[2]])
    F = SP.global_functions(space, loc)
    vol = R.geometry(v, e)["volumes"]
    m = np.zeros(space.global_dof_count)
    for t, vals in F.items():
        m += vol[t] * np.einsum("p,pj->j", w, np.abs(vals[0]))
    return m


def diameter(mesh):
    v = mesh[0]
    return float(max(np.linalg.norm(v[:, i] - v[:, j]) for i in range(v.shape[1]) for j in range(i + 1, v.shape[1])))


def space_pairs(mesh, quick):
    doms = sorted(set(mesh[2].tolist()))
    out = [({"kind": "DP0"}, {"kind": "DP0"}), ({"kind": "P1", "inc": True}, {"kind": "P1", "inc": True}), ({"kind": "DP1"}, {"kind": "DP0"}),
           ({"kind": "DP0"}, {"kind": "P1", "inc": True})]
    if len(doms) > 1 and not quick:
        out.append(({"kind": "P1", "sel": ("segments", (doms[-1],)), "inc": True}, {"kind": "DP1", "sel": ("segments", (doms[0],))}))
    return out


def check_bounds(ctx, name, quick):
    from bempp_cl.api.integration import triangle_gauss

    mesh = meshes.get(name, ctx.seed)
    grid = SP.make_grid(mesh)
    D = diameter(mesh)
    mags = [1e-3, 1e-1, 1.0] if quick else [1e-3, 1e-2, 1e-1, 1.0]
    args = [0.0, np.pi / 4, np.pi / 2, -3 * np.pi / 4, np.pi] if quick else [0.0, np.pi / 4, -np.pi / 4, np.pi / 2, -np.pi / 2, 3 * np.pi / 4, -3 * np.pi / 4, np.pi]
    orders = [(4, 4)] if quick else [(4, 4), (6, 5)]
    for (r, s) in orders:
        pts, w = triangle_gauss.rule(r)
        if np.min(w) <= 0 or np.min(pts) < 0 or np.max(pts.sum(axis=0)) > 1:
            raise RuntimeError("order %d is not a positive interior rule; the entrywise bound needs one" % r)
        par = ops.params(r, s)
        for dspec, tspec in space_pairs(mesh, quick):
            dom = SP.make_space(grid, dict({"sel": ("all",)}, **dspec))
            dual = SP.make_space(grid, dict({"sel": ("all",)}, **tspec))
            mm = np.outer(abs_integrals(mesh, dual), abs_integrals(mesh, dom))
            L = {n: ops.dense(ops.boundary("laplace", n, dom, dom, dual, par=par)) for n in ("single_layer", "double_layer", "adjoint_double_layer")}
            for mag, arg in itertools.product(mags, args):
                k = (mag / D) * np.exp(1j * arg)
                if abs(k.imag) < 1e-18 * abs(k):
                    k = complex(k.real, 0.0)
                if abs(k.real) < 1e-16 * abs(k):
                    k = complex(0.0, k.imag)
                case = {"sub": "bound", "mesh": name, "k": k, "domain": SP.spec_json(dict({"sel": ("all",)}, **dspec)),
                        "dual": SP.spec_json(dict({"sel": ("all",)}, **tspec)), "order": [r, s]}
                try:
                    H = {n: ops.dense(ops.boundary("helmholtz", n, dom, dom, dual, k=(k.real if k.imag == 0 else k), par=par))
                         for n in ("single_layer", "double_layer", "adjoint_double_layer")}
                except Exception as exc:  # noqa: BLE001
                    ctx.violation("bound/exception:%s" % type(exc).__name__, case, repr(exc))
                    continue
                ctx.case((name, repr(k), SP.spec_key(dict({"sel": ("all",)}, **dspec)), SP.spec_key(dict({"sel": ("all",)}, **tspec)), r, s), sub="bound",
                         sample=case if len(ctx.samples) < 2 and mag == 1.0 else None)
                ak2 = abs(k) ** 2
                slack = 1e-13 * np.max(mm) / (4 * np.pi * D)
                excess = np.abs(H["single_layer"] - L["single_layer"] - 1j * k / (4 * np.pi) * mm) - ak2 * D / (4 * np.pi) * mm
                worst = float(np.max(excess / (ak2 * D / (4 * np.pi) * mm + slack)))
                ctx.observe("V-bound(excess/bound)", worst, 0.0)
                if np.max(excess) > slack:
                    ctx.violation("bound/single_layer/arg=%.2f" % arg, case, "entry exceeds |k|^2 D/(4 pi) m m' by factor %.3g" % (1 + worst))
                for n in ("double_layer", "adjoint_double_layer"):
                    excess = np.abs(H[n] - L[n]) - ak2 / (4 * np.pi) * mm
                    worst = float(np.max(excess / (ak2 / (4 * np.pi) * mm + slack / D)))
                    ctx.observe("K-bound(excess/bound)", worst, 0.0)
                    if np.max(excess) > slack / D * 10:
                        ctx.violation("bound/%s/arg=%.2f" % (n, arg), case, "entry exceeds |k|^2/(4 pi) m m' by factor %.3g" % (1 + worst))


def check_modified(ctx, name, quick):
    import bempp_cl.api as bem

    mesh = meshes.get(name, ctx.seed)
    grid = SP.make_grid(mesh)
    p0 = SP.make_space(grid, {"kind": "DP0"})
    p1 = SP.make_space(grid, {"kind": "P1", "inc": True})
    pts = np.array([[2.1, 0.3, 0.4], [0.5, 0.5, 3.0], [-1.0, -1.2, -0.7]]).T
    combos = [("single_layer", p0, p0), ("double_layer", p1, p0), ("adjoint_double_layer", p0, p1), ("hypersingular", p1, p1)]
    # "all quadrature orders": orders that differ from the global defaults (4, 4) - the imaginary-wavenumber branch of the Helmholtz
    # factories forwards to the modified Helmholtz ones and must forward the parameter object too
    import itertools

    for w, (r_, s_) in itertools.product([0.1, 1.0, 5.0] if not quick else [0.1, 5.0], [(3, 5)] if quick else [(4, 4), (3, 5), (6, 2)]):
        par = ops.params(r_, s_)
        for opn, dom, dual in combos:
            case = {"sub": "modified", "mesh": name, "omega": w, "operator": opn, "orders": [r_, s_]}
            try:
                Hm = ops.dense(ops.boundary("helmholtz", opn, dom, dom, dual, k=1j * w, par=par))
                Mm = ops.dense(ops.boundary("modified_helmholtz", opn, dom, dom, dual, k=w, par=par))
                ctx.check_close("imaginary-wavenumber/boundary/%s" % opn, case, Hm, Mm, TOL, "helmholtz(iw)=modified(w)")
                ctx.case((name, "mod", opn, w, r_, s_), sub="modified")
                for eps in (1e-6, 1e-9):
                    He = ops.dense(ops.boundary("helmholtz", opn, dom, dom, dual, k=eps + 1j * w, par=par))
                    err = float(np.max(np.abs(He - Mm)) / np.max(np.abs(Mm)))
                    ctx.observe("vanishing-real-part(err/eps)", err / eps, 10.0 * max(1.0, w * diameter(mesh)) * 4)
                    if err > 10 * eps * max(1.0, w * diameter(mesh)) * 4:
                        ctx.violation("imaginary-wavenumber/limit/%s" % opn, dict(case, eps=eps), "helmholtz(eps+iw) differs from modified(w) by %.2e for eps=%.0e" % (err, eps))
                    ctx.case((name, "lim", opn, w, eps, r_, s_), sub="modified")
            except Exception as exc:  # noqa: BLE001
                ctx.violation("imaginary-wavenumber/boundary/%s/exception:%s" % (opn, type(exc).__name__), case, repr(exc))
        for opn, sp in (("single_layer", p0), ("double_layer", p1)):
            case = {"sub": "modified", "mesh": name, "omega": w, "operator": "potential-" + opn, "orders": [r_, s_]}
            n = sp.global_dof_count
            c = np.cos(np.arange(n) + 0.2)
            try:
                a = np.asarray(ops.potential("helmholtz", opn, sp, pts, k=1j * w, par=par).evaluate(bem.GridFunction(sp, coefficients=c)))
                b = np.asarray(ops.potential("modified_helmholtz", opn, sp, pts, k=w, par=par).evaluate(bem.GridFunction(sp, coefficients=c)))
                ctx.check_close("imaginary-wavenumber/potential/%s" % opn, case, a, b, TOL, "helmholtz(iw)=modified(w) potential")
                for eps in (1e-6, 1e-9):
                    ae = np.asarray(ops.potential("helmholtz", opn, sp, pts, k=eps + 1j * w, par=par).evaluate(bem.GridFunction(sp, coefficients=c)))
                    err = float(np.max(np.abs(ae - b)) / np.max(np.abs(b)))
                    if err > 10 * eps * max(1.0, w * 2 * diameter(mesh)) * 4:
                        ctx.violation("imaginary-wavenumber/limit/potential-%s" % opn, dict(case, eps=eps), "potential(eps+iw) differs from modified(w) by %.2e" % err)
                ctx.case((name, "modpot", opn, w, r_, s_), sub="modified")
            except Exception as exc:  # noqa: BLE001
                ctx.violation("imaginary-wavenumber/potential/%s/exception:%s" % (opn, type(exc).__name__), case, repr(exc))


def check_conjugation_symmetry(ctx, name, quick):
    mesh = meshes.get(name, ctx.seed)
    grid = SP.make_grid(mesh)
    p0 = SP.make_space(grid, {"kind": "DP0"})
    p1 = SP.make_space(grid, {"kind": "P1", "inc": True})
    par = ops.params(4, 4)
    for k in ([1.3, 0.7 + 0.4j] if quick else [1.3, 0.7 + 0.4j, -0.5 + 0.2j, 2.0 - 0.3j]):
        for opn, dom, dual in [("single_layer", p0, p0), ("double_layer", p1, p0), ("adjoint_double_layer", p0, p1), ("hypersingular", p1, p1)]:
            case = {"sub": "conjugation", "mesh": name, "k": k, "operator": opn}
            A = ops.dense(ops.boundary("helmholtz", opn, dom, dom, dual, k=k, par=par))
            Bm = ops.dense(ops.boundary("helmholtz", opn, dom, dom, dual, k=-np.conj(k), par=par))
            ctx.case((name, "conj", opn, repr(k)), sub="conjugation")
            ctx.check_close("conjugation/%s" % opn, case, Bm, np.conj(A), TOL, "H(-conj k)=conj H(k)")
    # symmetry: regular part to rounding, whole matrix along a singular-order ladder
    for family, k in [("laplace", None), ("helmholtz", 0.9 + 0.3j), ("modified_helmholtz", 0.8)]:
        ladder = [4, 8, 10]
        res = {"V": [], "W": [], "K": []}
        for s in ladder:
            par = ops.params(4, s)
            mats = {}
            for tag, opn, dom, dual in [("V0", "single_layer", p0, p0), ("V1", "single_layer", p1, p1), ("W", "hypersingular", p1, p1), ("K", "double_layer", p1, p0), ("Kt", "adjoint_double_layer", p0, p1)]:
                full = ops.dense(ops.boundary(family, opn, dom, dom, dual, k=k, par=par))
                sing = ops.dense(ops.boundary(family, opn, dom, dom, dual, k=k, par=par, assembler="only_singular_part"))
                mats[tag] = (full, full - sing)
            case = {"sub": "symmetry", "mesh": name, "family": family, "k": k, "singular_order": s}
            for tag in ("V0", "V1", "W"):
                full, reg = mats[tag]
                ctx.check_close("symmetry/regular-part/%s" % tag, case, reg, reg.T, TOL, "regular part symmetric", scale=float(np.max(np.abs(full))))
                res["V" if tag != "W" else "W"].append(float(np.max(np.abs(full - full.T)) / np.max(np.abs(full))))
            fk, rk = mats["K"]
            fkt, rkt = mats["Kt"]
            ctx.check_close("symmetry/regular-part/K'=K^T", case, rkt, rk.T, TOL, "regular part K'=K^T", scale=float(np.max(np.abs(fk))))
            res["K"].append(float(np.max(np.abs(fkt - fk.T)) / np.max(np.abs(fk))))
            ctx.case((name, "sym", family, s), sub="symmetry")
        for tag, lst in res.items():
            top = max(lst[-(len(lst) // len(ladder)):])
            bottom = max(lst[: len(lst) // len(ladder)])
            case = {"sub": "symmetry", "mesh": name, "family": family, "k": k, "asymmetry": lst}
            ctx.observe("asymmetry-top-of-ladder", top, 1e-6)
            if top > 1e-6 or bottom > 5e-2 or (bottom > 1e-9 and top > 0.5 * bottom):
                ctx.violation("symmetry/whole/%s" % tag, case, "asymmetry does not vanish with the singular order: %s" % ["%.1e" % x for x in lst])


def run(ctx):
    quick = ctx.tier == "quick"
    for name in (["edge2", "tet"] if quick else ["edge2", "fan4", "tet", "cube12"]):
        check_bounds(ctx, name, quick)
    for name in (["tet"] if quick else ["fan4", "tet", "cube12"]):
        check_modified(ctx, name, quick)
        check_conjugation_symmetry(ctx, name, quick)
    ctx.assumptions += ["entrywise bounds use |e^z-1-z| <= |z|^2 and sum_{n>=2}(n-1)|z|^n/n! <= |z|^2 for |z| <= 1 and hold for the discrete sums because the "
                        "rules of orders 4 and 6 have positive weights and interior points (asserted) and the singular rules integrate the degree-2 "
                        "products exactly (order >= 3)", "m = integrals of |basis function| through the public evaluation path"]
    return ctx.finish(rule="mesh x scalar space pair x polar lattice of wavenumbers (|k|D in {1e-3..1} x 5-8 arguments) x order pairs for the entrywise bounds; "
                      "omega lattice x all four boundary operators and both potentials for Helmholtz(i w) = modified(w) and the vanishing-real-part limit; "
                      "k -> -conj(k); symmetry of regular parts (rounding) and of whole matrices along a singular-order ladder; distinct = tuples")


def replay(ctx, case):
    sub = case["sub"]
    if sub == "bound":
        check_bounds(ctx, case["mesh"], False)
    elif sub == "modified":
        check_modified(ctx, case["mesh"], False)
    else:
        check_conjugation_symmetry(ctx, case["mesh"], False)
