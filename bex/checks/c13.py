"""C13 - sparse operators, projections and integrals are exact L2 quantities (E1 sweep)."""

import itertools

import numpy as np

from bex import ops
from bex import spaces as SP
from bex.models import basis_ref as B
from bex.models import meshes
from bex.models import topo_ref as R

LEVEL = "exploration"
TOL = 1e-11

DEG = {"DP0": 0, "DP1": 1, "P1": 1, "RWG": 1, "SNC": 1}
CODIM = {"DP0": 1, "DP1": 1, "P1": 1, "RWG": 3, "SNC": 3}


def loc_rule():
    lam, w = B.tri_rule_deg4()
    return np.vstack([lam[1], lam[2]]), w


def gram(mesh, s_test, s_trial):
    """Exact matrix of L2 inner products of the represented basis functions (degree <= 4 products)."""
    v, e, d = mesh
    loc, w = loc_rule()
    Ft = SP.global_functions(s_test, loc)
    Fd = SP.global_functions(s_trial, loc)
    vol = R.geometry(v, e)["volumes"]
    M = np.zeros((s_test.global_dof_count, s_trial.global_dof_count))
    for t in Ft:
        if t in Fd:
            M += vol[t] * np.einsum("p,cpi,cpj->ij", w, Ft[t], Fd[t])
    return M


def specs_for(mesh, kinds):
    d = sorted(set(mesh[2].tolist()))
    out = []
    for k in kinds:
        base = {"kind": k, "inc": None if k in ("DP0", "DP1") else True, "trunc": None if k in ("DP0", "DP1") else True}
        out.append(dict(base, sel=("all",)))
        if len(d) > 1:
            out.append(dict(base, sel=("segments", (d[-1],))))
            if k in ("P1", "RWG"):
                out.append(dict(base, sel=("segments", (d[0],)), inc=False))
    return out


def check_identity(ctx, meshname, mesh, grid, spaces, orders):
    area = R.area(mesh[0], mesh[1])
    for (sa, A), (sb, Bs) in itertools.product(spaces, spaces):
        if CODIM[sa["kind"]] != CODIM[sb["kind"]]:
            continue
        deg = DEG[sa["kind"]] + DEG[sb["kind"]]
        ref = gram(mesh, A, Bs)
        case0 = {"sub": "identity", "mesh": meshname, "test": SP.spec_json(sa), "trial": SP.spec_json(sb)}
        sig = "identity/%s-%s" % (sa["kind"], sb["kind"])
        for n in orders:
            if n < max(deg, 1):
                continue
            case = dict(case0, order=n)
            try:
                M = ops.dense(ops.boundary("sparse", "identity", Bs, Bs, A, par=ops.params(n, 4)))
            except Exception as exc:  # noqa: BLE001
                ctx.violation(sig + "/exception:" + type(exc).__name__, case, repr(exc))
                break
            ctx.case((meshname, SP.spec_key(sa), SP.spec_key(sb), n), sub="identity", sample=case if (len(ctx.samples) < 3 and n == 7 and sa is not sb) else None)
            scale = float(np.max(np.abs(ref))) or 1.0
            ctx.check_close(sig, case, M, ref, TOL, "identity-vs-exact-gram", scale=scale)
        if sa is sb:
            if np.max(np.abs(ref - ref.T)) > 1e-14 * np.max(np.abs(ref)) or np.min(np.linalg.eigvalsh((ref + ref.T) / 2)) <= 0:
                ctx.violation(sig + "/spd", case0, "Gram matrix of a space with itself is not SPD")
            S = B.selection(mesh, sa.get("sel", ("all",)))
            if sa["kind"] in ("DP0", "P1") and (sa["kind"] == "DP0" or sa.get("inc")):
                sel_area = float(R.geometry(mesh[0], mesh[1])["volumes"][S].sum())
                M4 = ops.dense(ops.boundary("sparse", "identity", A, A, A, par=ops.params(4, 4)))
                ctx.check_close(sig + "/sum-is-area", case0, M4.sum(), sel_area, TOL, "identity-sum-area")


def lb_reference(mesh, s_test, s_trial):
    v, e, d = mesh
    g = R.geometry(v, e)
    Tt = SP.dense_dof_transformation(s_test)
    Td = SP.dense_dof_transformation(s_trial)
    M = np.zeros((s_test.global_dof_count, s_trial.global_dof_count))
    ref_grad = np.array([[-1.0, 1.0, 0.0], [-1.0, 0.0, 1.0]])
    sup = np.asarray(s_test.support, dtype=bool) & np.asarray(s_trial.support, dtype=bool)
    for t in np.flatnonzero(sup):
        G = g["jit"][t] @ ref_grad  # (3, 3): columns = surface gradients of lambda_i
        K = g["volumes"][t] * (G.T @ G)
        mt = np.asarray(s_test.local_multipliers)[t]
        md = np.asarray(s_trial.local_multipliers)[t]
        lt = np.asarray(s_test.local2global)[t].astype(int)
        ld = np.asarray(s_trial.local2global)[t].astype(int)
        M += (Tt[lt, :] * mt[:, None]).T @ K @ (Td[ld, :] * md[:, None])
    return M


def check_laplace_beltrami(ctx, meshname, mesh, grid, orders):
    closed = R.is_closed_manifold(mesh[1])
    d = sorted(set(mesh[2].tolist()))
    specs = [{"kind": "P1", "sel": ("all",), "inc": True, "trunc": True}, {"kind": "DP1", "sel": ("all",)}]
    if len(d) > 1:
        specs.append({"kind": "P1", "sel": ("segments", (d[-1],)), "inc": True, "trunc": True})
    for spec in specs:
        s = SP.make_space(grid, spec)
        ref = lb_reference(mesh, s, s)
        case0 = {"sub": "laplace-beltrami", "mesh": meshname, "space": SP.spec_json(spec)}
        for n in orders:
            M = ops.dense(ops.boundary("sparse", "laplace_beltrami", s, s, s, par=ops.params(n, 4)))
            ctx.case((meshname, "LB", SP.spec_key(spec), n), sub="laplace-beltrami")
            ctx.check_close("laplace-beltrami/%s" % spec["kind"], dict(case0, order=n), M, ref, TOL, "laplace-beltrami-vs-exact")
        ev = np.linalg.eigvalsh((ref + ref.T) / 2)
        if np.max(np.abs(ref - ref.T)) > 1e-13 * np.max(np.abs(ref)) or ev.min() < -1e-12 * ev.max():
            ctx.violation("laplace-beltrami/psd", case0, "stiffness matrix not symmetric positive semi-definite")
        if spec["kind"] == "P1" and spec["sel"][0] == "all":
            ctx.check_close("laplace-beltrami/constants", case0, ref @ np.ones(ref.shape[1]), np.zeros(ref.shape[0]), TOL, "lb-annihilates-constants",
                            scale=float(np.max(np.abs(ref))))


# ---------------------------------------------------------------------------
# callables
# ---------------------------------------------------------------------------
def make_callable(bem, kind, jit, vectorized, parameterized, cplx, coeffs):
    """Wrapped callable representing the affine function  c0 + c.x  (scalar) or a constant field c (vector)."""
    from bempp_cl.api.assembly.grid_function import callable as wrap

    c0, c = coeffs
    if kind == "scalar":
        if vectorized:
            if parameterized:
                def f(x, n, d, res, par):
                    res[0, :] = par[0] + c[0] * x[0] + c[1] * x[1] + c[2] * x[2]
            else:
                def f(x, n, d, res):
                    res[0, :] = c0 + c[0] * x[0] + c[1] * x[1] + c[2] * x[2]
        else:
            if parameterized:
                def f(x, n, d, res, par):
                    res[0] = par[0] + c[0] * x[0] + c[1] * x[1] + c[2] * x[2]
            else:
                def f(x, n, d, res):
                    res[0] = c0 + c[0] * x[0] + c[1] * x[1] + c[2] * x[2]
    else:
        if vectorized:
            if parameterized:
                def f(x, n, d, res, par):
                    res[0, :] = par[0]
                    res[1, :] = c[1]
                    res[2, :] = c[2]
            else:
                def f(x, n, d, res):
                    res[0, :] = c[0]
                    res[1, :] = c[1]
                    res[2, :] = c[2]
        else:
            if parameterized:
                def f(x, n, d, res, par):
                    res[0] = par[0]
                    res[1] = c[1]
                    res[2] = c[2]
            else:
                def f(x, n, d, res):
                    res[0] = c[0]
                    res[1] = c[1]
                    res[2] = c[2]
    return wrap(complex=cplx, jit=jit, parameterized=parameterized, vectorized=vectorized)(f)


def check_projection(ctx, meshname, mesh, grid, quick):
    import bempp_cl.api as bem

    v, e, d = mesh
    closed = R.is_closed_manifold(e)
    planar = meshname.endswith("p")
    flags = list(itertools.product((True, False), (False, True), (False, True), (False, True)))  # jit, vectorized, parameterized, complex
    if quick:
        flags = [fl for fl in flags if fl in [(True, False, False, False), (False, False, False, False), (True, True, False, False),
                                              (True, False, True, False), (True, False, False, True), (False, True, True, True)]]
    for jit, vec, par, cplx in flags:
        c0 = 0.7 + (0.2j if cplx else 0)
        c = np.array([0.3, -0.5, 0.9], dtype=complex if cplx else float)
        if cplx:
            c = c + 1j * np.array([0.1, 0.0, -0.4])
        tag = "jit=%s,vec=%s,par=%s,complex=%s" % (jit, vec, par, cplx)
        for kind in ["DP0", "DP1", "P1"]:
            cc = (c0, c * 0) if kind == "DP0" else (c0, c)
            try:
                fun = make_callable(bem, "scalar", jit, vec, par, cplx, cc)
                space = SP.make_space(grid, {"kind": kind, "inc": True if kind == "P1" else None})
                fp = np.array([cc[0]], dtype=complex if cplx else float) if par else None
                gf = bem.GridFunction(space, fun=fun, function_parameters=fp)
                coeffs = np.asarray(gf.coefficients)
            except Exception as exc:  # noqa: BLE001
                ctx.violation("projection/%s/exception:%s" % (tag, type(exc).__name__), {"sub": "projection", "mesh": meshname, "kind": kind, "flags": tag}, repr(exc))
                continue
            if kind == "DP0":
                want = np.full(e.shape[1], cc[0])
            elif kind == "DP1":
                want = np.array([cc[0] + cc[1] @ v[:, int(e[i, t])] for t in range(e.shape[1]) for i in range(3)])
            else:
                want = cc[0] + cc[1] @ v
            ctx.case((meshname, "proj", kind, tag), sub="projection")
            ctx.check_close("projection/%s/%s" % (kind, tag), {"sub": "projection", "mesh": meshname, "kind": kind, "flags": tag}, coeffs, want, 1e-10,
                            "projection-of-member")
        # a callable that reads the normal it is given: on a space with swapped normals that is the flipped normal of the space
        if not cplx and len(set(d.tolist())) > 1:
            from bempp_cl.api.assembly.grid_function import callable as wrap

            a = np.array([0.4, -0.7, 0.55])
            if vec:
                if par:
                    def fn(x, n, dom, res, prm):
                        res[0, :] = prm[0] * n[0] + a[1] * n[1] + a[2] * n[2]
                else:
                    def fn(x, n, dom, res):
                        res[0, :] = a[0] * n[0] + a[1] * n[1] + a[2] * n[2]
            else:
                if par:
                    def fn(x, n, dom, res, prm):
                        res[0] = prm[0] * n[0] + a[1] * n[1] + a[2] * n[2]
                else:
                    def fn(x, n, dom, res):
                        res[0] = a[0] * n[0] + a[1] * n[1] + a[2] * n[2]
            doms = sorted(set(d.tolist()))
            normals = R.geometry(v, e)["normals"]
            for sw in ((), (doms[-1],)):
                case = {"sub": "projection", "mesh": meshname, "kind": "DP0", "flags": tag, "callable": "a.n", "swapped": list(sw)}
                try:
                    space = SP.make_space(grid, {"kind": "DP0", "swapped": sw})
                    gf = bem.GridFunction(space, fun=wrap(complex=False, jit=jit, parameterized=par, vectorized=vec)(fn),
                                          function_parameters=np.array([a[0]]) if par else None)
                    coeffs = np.asarray(gf.coefficients)
                except Exception as exc:  # noqa: BLE001
                    ctx.violation("projection/%s/exception:%s" % (tag, type(exc).__name__), case, repr(exc))
                    continue
                flip = np.array([-1.0 if int(dd) in sw else 1.0 for dd in d])
                ctx.case((meshname, "proj-normal", tag, sw), sub="projection")
                ctx.check_close("projection/normal-dependent/%s" % tag, case, coeffs, flip * (normals @ a), 1e-10, "projection-of-normal-dependent-data")
        if planar:
            # constant tangential field on the planar screen lies in RWG (with boundary dofs) and, rotated, in SNC
            for kind in ("RWG", "SNC"):
                space = SP.make_space(grid, {"kind": kind, "inc": True, "trunc": True})
                field = np.array([c[0], c[1], 0.0 * c[2]])
                cc = (0.0, field)
                try:
                    fun = make_callable(bem, "vector", jit, vec, par, cplx, cc)
                    fp = np.array([field[0]], dtype=complex if cplx else float) if par else None
                    gf = bem.GridFunction(space, fun=fun, function_parameters=fp)
                    coeffs = np.asarray(gf.coefficients)
                except Exception as exc:  # noqa: BLE001
                    ctx.violation("projection/%s/exception:%s" % (tag, type(exc).__name__), {"sub": "projection", "mesh": meshname, "kind": kind, "flags": tag}, repr(exc))
                    continue
                # the represented function must equal the field at every point
                F = SP.global_functions(space, B.LOCAL_PTS)
                worst = 0.0
                for t, vals in F.items():
                    rep = vals @ coeffs  # (3, P)
                    worst = max(worst, float(np.max(np.abs(rep - field[:, None]))))
                ctx.case((meshname, "proj", kind, tag), sub="projection")
                ctx.observe("projection-of-member(vector)", worst, 1e-10)
                if worst > 1e-10:
                    ctx.violation("projection/%s/%s" % (kind, tag), {"sub": "projection", "mesh": meshname, "kind": kind, "flags": tag},
                                  "projection of a constant tangential field differs from the field by %.3e" % worst)


def check_gridfunction_methods(ctx, meshname, mesh, grid, spaces):
    import bempp_cl.api as bem

    v, e, d = mesh
    vol = R.geometry(v, e)["volumes"]
    loc, w = loc_rule()
    for spec, space in spaces:
        kind = spec["kind"]
        n = space.global_dof_count
        F = SP.global_functions(space, loc)
        Fc = SP.global_functions(space, np.array([[1 / 3], [1 / 3]]))
        Fv = SP.global_functions(space, np.array([[0.0, 1.0, 0.0], [0.0, 0.0, 1.0]]))
        G = gram(mesh, space, space)
        case0 = {"sub": "gridfunction", "mesh": meshname, "space": SP.spec_json(spec)}
        for j in range(n):
            cj = np.zeros(n, dtype=complex if j % 2 else float)
            cj[j] = (1.0 + 0.5j) if j % 2 else 1.0
            gf = bem.GridFunction(space, coefficients=cj)
            ctx.case((meshname, "gf", SP.spec_key(spec), j), sub="gridfunction")
            try:
                integ = np.asarray(gf.integrate()).reshape(-1)
                want = sum(vol[t] * np.einsum("p,cp->c", w, F[t][:, :, j]) for t in F) * cj[j]
                ctx.check_close("gridfunction/integrate/%s" % kind, dict(case0, dof=j), integ, want, TOL, "integrate",
                                scale=max(float(np.max(np.abs(want))), float(np.sqrt(abs(G[j, j]) * vol.sum()))))
                ctx.check_close("gridfunction/l2_norm/%s" % kind, dict(case0, dof=j), gf.l2_norm(), np.sqrt(G[j, j]) * abs(cj[j]), TOL, "l2_norm")
                ctx.check_close("gridfunction/projections/%s" % kind, dict(case0, dof=j), np.asarray(gf.projections()).reshape(-1), G[:, j] * cj[j], TOL,
                                "projections", scale=float(np.max(np.abs(G))))
                cen = np.asarray(gf.evaluate_on_element_centers())
                wantc = np.zeros((CODIM[kind], e.shape[1]), dtype=complex)
                for t in Fc:
                    wantc[:, t] = Fc[t][:, 0, j] * cj[j]
                ctx.check_close("gridfunction/element-centers/%s" % kind, dict(case0, dof=j), cen, wantc, TOL, "evaluate_on_element_centers",
                                scale=float(max(np.max(np.abs(wantc)), 1e-300)))
                ver = np.asarray(gf.evaluate_on_vertices())
                num = np.zeros((CODIM[kind], v.shape[1]), dtype=complex)
                den = np.zeros(v.shape[1])
                for t in Fv:
                    for i in range(3):
                        p = int(e[i, t])
                        num[:, p] += vol[t] * Fv[t][:, i, j] * cj[j]
                        den[p] += vol[t]
                wantv = np.where(den > 0, num / np.where(den > 0, den, 1), 0)
                ctx.check_close("gridfunction/vertices/%s" % kind, dict(case0, dof=j), ver, wantv, TOL, "evaluate_on_vertices",
                                scale=float(max(np.max(np.abs(wantv)), 1e-300)))
            except Exception as exc:  # noqa: BLE001
                ctx.violation("gridfunction/exception:%s/%s" % (type(exc).__name__, kind), dict(case0, dof=j), repr(exc))
                break


def check_gridfunction_histories(ctx, meshname, mesh, grid, depth):
    """E2: a GridFunction is a lazy, stateful object (primal / dual representation, cached vectors).  Every history of method calls up to
    `depth` from every way of constructing it is replayed on a fresh object; each observation is compared with direct quadrature of the
    function the object represents.  States are de-duplicated by the set of representations materialised so far (the reference model)."""
    import collections

    import bempp_cl.api as bem

    v, e, d = mesh
    vol = R.geometry(v, e)["volumes"]
    loc, w = loc_rule()
    closed = R.is_closed_manifold(e)
    families = [("P1", {"kind": "P1", "inc": True, "trunc": True, "sel": ("all",)}, [{"kind": "DP0", "sel": ("all",)}, {"kind": "DP1", "sel": ("all",)}])]
    if closed:
        families.append(("RWG", {"kind": "RWG", "inc": True, "trunc": True, "sel": ("all",)}, [{"kind": "SNC", "inc": True, "trunc": True, "sel": ("all",)}]))
    for kind, spec, dual_specs in families:
        space = SP.make_space(grid, spec)
        n = space.global_dof_count
        duals = {"own": space}
        for ds in dual_specs:
            duals[ds["kind"]] = SP.make_space(grid, ds)
        G = {k: gram(mesh, D, space) for k, D in duals.items()}
        F = SP.global_functions(space, loc)
        Fc = SP.global_functions(space, np.array([[1 / 3], [1 / 3]]))
        c = np.cos(np.arange(n) * 0.8 + 0.3) + (1j * np.sin(np.arange(n) * 0.5) if kind == "P1" else 0.0)
        want = {"coeff": c, "l2": float(np.sqrt(np.real(np.conj(c) @ G["own"] @ c))),
                "integrate": sum(vol[t] * np.einsum("p,cpj,j->c", w, F[t], c) for t in F)}
        for k in duals:
            want["proj:" + k] = G[k] @ c
        wc = np.zeros((CODIM[kind], e.shape[1]), dtype=complex)
        for t in Fc:
            wc[:, t] = Fc[t][:, 0, :] @ c
        want["centers"] = wc
        methods = ["coeff", "proj", "integrate", "l2", "centers"] + ["proj:" + k for k in duals]

        def construct(how):
            if how == "coefficients":
                return bem.GridFunction(space, coefficients=c.copy()), "own"
            dk = how.split(":")[1]
            return bem.GridFunction(space, projections=(G[dk] @ c).copy(), dual_space=duals[dk]), dk

        inits = ["coefficients", "projections:own"] + ["projections:" + k for k in duals if k != "own" and G[k].shape[0] == n and np.linalg.cond(G[k]) < 1e6]
        scale = {m: float(np.max(np.abs(np.asarray(want["proj:own" if m == "proj" else m])))) or 1.0 for m in methods}
        for how in inits:
            seen = set()
            frontier = collections.deque([()])
            while frontier:
                hist = frontier.popleft()
                if len(hist) >= depth:
                    continue
                for m in methods:
                    h2 = hist + (m,)
                    gf, own_dual = construct(how)
                    case = {"sub": "gridfunction-history", "mesh": meshname, "space": kind, "constructed_from": how, "history": list(h2)}
                    sig = "gridfunction-history/%s/%s/%s" % (kind, how.split(":")[0], m.split(":")[0])
                    try:
                        got = None
                        for step in h2:
                            if step == "coeff":
                                got = np.asarray(gf.coefficients).reshape(-1)
                            elif step == "proj":
                                got = np.asarray(gf.projections()).reshape(-1)
                            elif step.startswith("proj:"):
                                got = np.asarray(gf.projections(duals[step[5:]])).reshape(-1)
                            elif step == "integrate":
                                got = np.asarray(gf.integrate()).reshape(-1)
                            elif step == "l2":
                                got = gf.l2_norm()
                            elif step == "centers":
                                got = np.asarray(gf.evaluate_on_element_centers())
                    except Exception as exc:  # noqa: BLE001
                        ctx.violation(sig + "/exception:" + type(exc).__name__, case, repr(exc))
                        continue
                    ctx.transitions += 1
                    ctx.case((meshname, "gfh", kind, how, h2), sub="gridfunction-history", sample=case if len(ctx.samples) < 3 and len(h2) == 3 else None)
                    ref = want["proj:" + own_dual] if m == "proj" else want[m]
                    ctx.check_close(sig, case, got, ref, 1e-10, "gridfunction-history", scale=scale[m] if m != "proj" else float(np.max(np.abs(ref))) or 1.0)
                    # reference model of the object's state: which vectors it may have materialised / cached
                    canon = frozenset(h2)
                    if canon not in seen:
                        seen.add(canon)
                        ctx.states += 1
                        frontier.append(h2)


def check_multiplication(ctx, meshname, mesh, grid):
    import bempp_cl.api as bem
    from bempp_cl.api.assembly.boundary_operator import MultiplicationOperator

    v, e, d = mesh
    vol = R.geometry(v, e)["volumes"]
    loc, w = loc_rule()
    doms = sorted(set(d.tolist()))
    sel = ("segments", (doms[-1],)) if len(doms) > 1 else ("all",)
    p1 = SP.make_space(grid, {"kind": "P1", "inc": True})
    p0 = SP.make_space(grid, {"kind": "DP0"})
    p0s = SP.make_space(grid, {"kind": "DP0", "sel": sel})
    rwg = SP.make_space(grid, {"kind": "RWG", "inc": True})
    gsc = bem.GridFunction(p1, coefficients=np.cos(np.arange(p1.global_dof_count) * 0.7) + 1.5)
    gvec = bem.GridFunction(rwg, coefficients=np.sin(np.arange(rwg.global_dof_count) * 0.9 + 0.3))
    jobs = [("component", gsc, p1, p0, "scalar*P1->DP0"), ("component", gsc, p0s, p1, "scalar*DP0seg->P1"),
            ("component", gvec, rwg, rwg, "vector*RWG->RWG"), ("inner", gvec, rwg, p0, "inner(vector,RWG)->DP0")]
    for mode, gfun, dom, dual, label in jobs:
        case = {"sub": "multiplication", "mesh": meshname, "label": label}
        sig = "multiplication/%s" % label
        try:
            op = MultiplicationOperator(gfun, dom, dom if mode == "component" else dual, dual, parameters=ops.params(6, 4), mode=mode)
            M = np.asarray(op.weak_form().to_dense())
        except Exception as exc:  # noqa: BLE001
            ctx.violation(sig + "/exception:" + type(exc).__name__, case, repr(exc))
            continue
        Fg = SP.global_functions(gfun.space, loc)
        Fd = SP.global_functions(dom, loc)
        Ft = SP.global_functions(dual, loc)
        cg = np.asarray(gfun.coefficients)
        ref = np.zeros((dual.global_dof_count, dom.global_dof_count))
        for t in Ft:
            if t in Fd and t in Fg:
                gval = Fg[t] @ cg  # (c, P)
                if mode == "component":
                    prod = Fd[t] * gval[:, :, None]  # (c, P, nd)
                else:
                    prod = np.sum(Fd[t] * gval[:, :, None], axis=0, keepdims=True)
                ref += vol[t] * np.einsum("p,cpi,cpj->ij", w, Ft[t], prod)
        ctx.case((meshname, "mult", label), sub="multiplication")
        ctx.check_close(sig, case, M, ref, 1e-10, "multiplication-operator")


def run(ctx):
    quick = ctx.tier == "quick"
    names = ["fan5", "screen2x2p", "tet", "cube12"] if quick else ["fan5", "screen2x2", "screen2x2p", "tet", "octa", "cube12", "lshape28"]
    orders = [1, 2, 3, 4, 7, 12, 20] if quick else list(range(1, 21))
    for name in names:
        mesh = meshes.get(name, ctx.seed)
        ctx.samples.append({"mesh": name, "sub": "all sub-checks"}) if len(ctx.samples) < 1 else None
        if name.endswith("p"):
            # make the planar screen exactly planar (seed perturbation is applied in-plane only)
            mesh = (mesh[0] * np.array([[1.0], [1.0], [0.0]]), mesh[1], mesh[2])
        grid = SP.make_grid(mesh)
        specs = specs_for(mesh, ["DP0", "DP1", "P1", "RWG", "SNC"])
        spaces = [(s, SP.make_space(grid, s)) for s in specs]
        spaces = [(s, sp) for s, sp in spaces if sp.global_dof_count > 0 and np.asarray(sp.support).any()]
        check_identity(ctx, name, mesh, grid, spaces, orders)
        check_laplace_beltrami(ctx, name, mesh, grid, [o for o in orders if o <= 8])
        if not quick or name in ("tet", "screen2x2p"):
            check_projection(ctx, name, mesh, grid, quick)
        check_gridfunction_methods(ctx, name, mesh, grid, [x for x in spaces if x[0]["sel"][0] == "all" or x[0]["kind"] in ("P1", "RWG")])
        check_multiplication(ctx, name, mesh, grid)
        if name in ("tet", "fan5") or not quick:
            check_gridfunction_histories(ctx, name, mesh, grid, 3 if (quick or mesh[1].shape[1] > 12) else 4)
    ctx.assumptions += ["exact Gram matrices = degree-4 exact rule applied to the basis functions as evaluated through the public path (C09 validates them)",
                        "identity checked only for orders that integrate the product exactly (degree_test + degree_trial <= order)"]
    return ctx.finish(rule="mesh x all ordered pairs of {DP0,DP1,P1,RWG,SNC} (+segment variants) of equal codomain x every quadrature order with exact "
                      "integration; Laplace-Beltrami; callables over all decorator flag combinations; grid-function methods for every unit coefficient "
                      "vector; MultiplicationOperator in component and inner mode; grid-function call histories (coefficients, projections onto its own and "
                      "other dual spaces, integrate, l2_norm, evaluate) to depth 3 (4) from every construction mode; distinct = distinct tuples")


def replay(ctx, case):
    name = case["mesh"]
    mesh = meshes.get(name, ctx.seed)
    if name.endswith("p"):
        mesh = (mesh[0] * np.array([[1.0], [1.0], [0.0]]), mesh[1], mesh[2])
    grid = SP.make_grid(mesh)
    sub = case["sub"]
    if sub == "identity":
        sa, sb = SP.spec_from_json(case["test"]), SP.spec_from_json(case["trial"])
        A, Bs = SP.make_space(grid, sa), SP.make_space(grid, sb)
        pairs = [(sa, A)] if sa == sb else [(sa, A), (sb, Bs)]
        check_identity(ctx, name, mesh, grid, pairs, [case.get("order", 4)])
    elif sub == "laplace-beltrami":
        check_laplace_beltrami(ctx, name, mesh, grid, [case.get("order", 4)])
    elif sub == "projection":
        check_projection(ctx, name, mesh, grid, False)
    elif sub == "gridfunction":
        spec = SP.spec_from_json(case["space"])
        check_gridfunction_methods(ctx, name, mesh, grid, [(spec, SP.make_space(grid, spec))])
    else:
        check_multiplication(ctx, name, mesh, grid)
