"""C12 - quadrature rules have their stated degree of exactness (finite, complete enumeration)."""

import itertools

import numpy as np

from bex.models import quad_ref as Q
from bex.models import meshes

LEVEL = "exploration"

TOL = 1e-12
EDGE_PAIRS = [(0, 1), (1, 0), (1, 2), (2, 1), (0, 2), (2, 0)]


def _mono_eval(points, expo):
    out = np.ones(points.shape[1])
    for row, k in zip(points, expo):
        if k:
            out = out * row**k
    return out


def _phys(P, loc):
    """Map local reference points (2,N) into triangle P (rows = vertices)."""
    return P[0][None, :] + loc[0][:, None] * (P[1] - P[0])[None, :] + loc[1][:, None] * (P[2] - P[0])[None, :]


def _relabel(P, shared_targets, shared_pts):
    """Return vertex array of a triangle whose local vertices shared_targets[i] are the points shared_pts[i]."""
    P = np.asarray(P)
    out = [None, None, None]
    used = []
    for loc, idx in zip(shared_targets, shared_pts):
        out[loc] = P[idx]
        used.append(idx)
    rest = [i for i in range(3) if i not in used]
    free = [i for i in range(3) if out[i] is None]
    for loc, idx in zip(free, rest):
        out[loc] = P[idx]
    return np.array(out)


def check_triangle(ctx, orders):
    from bempp_cl.api.integration import triangle_gauss

    for n in orders:
        case = {"sub": "triangle", "order": n}
        try:
            pts, w = triangle_gauss.rule(n)
        except Exception as e:  # noqa: BLE001
            ctx.violation("triangle/lookup/order=%d" % n, case, "rule(%d) raised %r" % (n, e))
            continue
        pts = np.asarray(pts, dtype=float)
        w = np.asarray(w, dtype=float)
        worst = 0.0
        wm = None
        for a, b in Q.monomials_upto(n, 2):
            exact = float(Q.tri_monomial(a, b))
            got = float(np.sum(w * pts[0] ** a * pts[1] ** b))
            err = abs(got - exact)
            ctx.case(("tri", n, a, b), sub="triangle-monomial")
            if err > worst:
                worst, wm = err, (a, b)
        ctx.observe("triangle-exactness(abs)", worst, TOL)
        if worst > TOL:
            ctx.violation("triangle/exactness/order=%d" % n, dict(case, monomial=wm),
                          "order %d rule integrates x^%d y^%d with error %.3e" % (n, wm[0], wm[1], worst))
        if pts.shape[1] != triangle_gauss.get_number_of_quad_points(n):
            ctx.violation("triangle/npoints/order=%d" % n, case, "get_number_of_quad_points disagrees with rule")
    for bad in (0, -1, 21, 25):
        ctx.case(("tri-reject", bad), sub="reject")
        try:
            triangle_gauss.rule(bad)
        except Exception:  # noqa: BLE001
            continue
        ctx.violation("triangle/reject/order=%d" % bad, {"sub": "triangle-reject", "order": bad},
                      "triangle_gauss.rule(%d) was not rejected" % bad)


def check_gauss(ctx, orders):
    from bempp_cl.api.integration import gauss

    for n in orders:
        case = {"sub": "gauss", "order": n}
        try:
            x, w = gauss.rule(n)
        except Exception as e:  # noqa: BLE001
            ctx.violation("gauss/lookup/order=%d" % n, case, "rule(%d) raised %r" % (n, e))
            continue
        x = np.asarray(x, dtype=float)
        w = np.asarray(w, dtype=float)
        if len(x) != n:
            ctx.violation("gauss/npoints/order=%d" % n, case, "%d points" % len(x))
        worst, wk = 0.0, 0
        for k in range(2 * n):
            err = abs(float(np.sum(w * x**k)) - 1.0 / (k + 1))
            ctx.case(("gauss", n, k), sub="gauss-monomial")
            if err > worst:
                worst, wk = err, k
        ctx.observe("gauss-exactness(abs)", worst, TOL)
        if worst > TOL:
            ctx.violation("gauss/exactness/order=%d" % n, dict(case, degree=wk),
                          "%d-point rule integrates x^%d with error %.3e" % (n, wk, worst))
    for bad in (0, -1, 31, 40):
        ctx.case(("gauss-reject", bad), sub="reject")
        try:
            gauss.rule(bad)
        except Exception:  # noqa: BLE001
            continue
        ctx.violation("gauss/reject/order=%d" % bad, {"sub": "gauss-reject", "order": bad}, "not rejected")


ADJ = {"coincident": 6, "edge_adjacent": 5, "vertex_adjacent": 2}


def check_duffy_exactness(ctx, orders_full, orders_low):
    from bempp_cl.api.integration import duffy_galerkin as D

    for n in sorted(set(orders_full) | set(orders_low)):
        for adj, mult in ADJ.items():
            case = {"sub": "duffy-exactness", "order": n, "adjacency": adj}
            pt, pr, w = D.rule(n, adj)
            ctx.case(("duffy-count", n, adj), sub="duffy-count")
            if not (pt.shape == pr.shape == (2, mult * n**4) and w.shape == (mult * n**4,)
                    and D.number_of_quadrature_points(n, adj) == mult * n**4):
                ctx.violation("duffy/npoints/%s/order=%d" % (adj, n), case, "point count %s" % (pt.shape,))
                continue
            if np.min(pt) < -1e-14 or np.min(pr) < -1e-14 or np.max(pt.sum(0)) > 1 + 1e-14 or np.max(pr.sum(0)) > 1 + 1e-14:
                ctx.violation("duffy/points-outside/%s/order=%d" % (adj, n), case, "points outside reference triangle")
            deg = 2 * n - 4 if n in orders_full else min(4, 2 * n - 4)
            if deg < 0:
                continue
            allp = np.vstack([pt, pr])
            worst, wm = 0.0, None
            for expo in Q.monomials_upto(deg, 4):
                exact = float(Q.tri_monomial(expo[0], expo[1]) * Q.tri_monomial(expo[2], expo[3]))
                err = abs(float(np.sum(w * _mono_eval(allp, expo))) - exact)
                ctx.case(("duffy", n, adj, expo), sub="duffy-monomial")
                if err > worst:
                    worst, wm = err, expo
            ctx.observe("duffy-exactness(abs)", worst, TOL)
            if worst > TOL:
                ctx.violation("duffy/exactness/%s/order=%d" % (adj, n), dict(case, monomial=wm),
                              "monomial %s error %.3e (degree bound %d)" % (wm, worst, deg))


def check_remap_exactness(ctx, n=3):
    """Remapped rules still integrate polynomials exactly (remaps are affine bijections of the triangle)."""
    from bempp_cl.api.integration import duffy_galerkin as D

    deg = 2 * n - 4
    pt, pr, w = D.rule(n, "edge_adjacent")
    for (i0, i1), (j0, j1) in itertools.product(EDGE_PAIRS, EDGE_PAIRS):
        a = D.remap_points_shared_edge(pt, i0, i1)
        b = D.remap_points_shared_edge(pr, j0, j1)
        allp = np.vstack([a, b])
        for expo in Q.monomials_upto(deg, 4):
            exact = float(Q.tri_monomial(expo[0], expo[1]) * Q.tri_monomial(expo[2], expo[3]))
            err = abs(float(np.sum(w * _mono_eval(allp, expo))) - exact)
            ctx.case(("remap-edge", i0, i1, j0, j1, expo), sub="remap-monomial")
            ctx.observe("remap-exactness(abs)", err, TOL)
            if err > TOL:
                ctx.violation("duffy/remap-exactness/edge/%d%d-%d%d" % (i0, i1, j0, j1),
                              {"sub": "remap-exactness", "kind": "edge", "test": [i0, i1], "trial": [j0, j1], "monomial": expo},
                              "error %.3e" % err)
                break
    pt, pr, w = D.rule(n, "vertex_adjacent")
    for i, j in itertools.product(range(3), range(3)):
        allp = np.vstack([D.remap_points_shared_vertex(pt, i), D.remap_points_shared_vertex(pr, j)])
        for expo in Q.monomials_upto(deg, 4):
            exact = float(Q.tri_monomial(expo[0], expo[1]) * Q.tri_monomial(expo[2], expo[3]))
            err = abs(float(np.sum(w * _mono_eval(allp, expo))) - exact)
            ctx.case(("remap-vertex", i, j, expo), sub="remap-monomial")
            ctx.observe("remap-exactness(abs)", err, TOL)
            if err > TOL:
                ctx.violation("duffy/remap-exactness/vertex/%d-%d" % (i, j),
                              {"sub": "remap-exactness", "kind": "vertex", "test": i, "trial": j, "monomial": expo},
                              "error %.3e" % err)
                break


def _geometries(seed):
    """Three triangle pairs per adjacency type (generic coordinates, bounded aspect ratio)."""
    out = {"coincident": [], "edge": [], "vertex": []}
    for k, name in enumerate(["edge2", "book3", "tet"]):
        v, e, _ = meshes.get(name, seed)
        T = v[:, e[:, 0]].T
        out["coincident"].append((T, T))
    # edge adjacent: (shared a, shared b, apex of T, apex of T')
    v, e, _ = meshes.get("edge2", seed)
    out["edge"].append((v[:, [0, 1, 2]].T, v[:, [0, 1, 3]].T))
    v, e, _ = meshes.get("book3", seed)
    out["edge"].append((v[:, [0, 1, 2]].T, v[:, [0, 1, 4]].T))
    v, e, _ = meshes.get("screen2x2p", seed)  # coplanar pair
    out["edge"].append((v[:, [0, 4, 1]].T, v[:, [0, 4, 3]].T))
    v, e, _ = meshes.get("bow2", seed)
    out["vertex"].append((v[:, [0, 1, 2]].T, v[:, [0, 3, 4]].T))
    v, e, _ = meshes.get("fan5", seed)
    out["vertex"].append((v[:, [0, 1, 2]].T, v[:, [0, 3, 4]].T))
    v, e, _ = meshes.get("screen2x2p", seed)  # coplanar, opposite quadrants
    out["vertex"].append((v[:, [4, 0, 1]].T, v[:, [4, 8, 7]].T))
    return out


def _lib_singular(D, n, kind, T, Tp, ti, tj):
    """Library's value of int_T int_T' 1/|x-y| with the remap selected by the local indices."""
    if kind == "coincident":
        pt, pr, w = D.rule(n, "coincident")
    elif kind == "edge":
        pt, pr, w = D.rule(n, "edge_adjacent")
        pt = D.remap_points_shared_edge(pt, *ti)
        pr = D.remap_points_shared_edge(pr, *tj)
    else:
        pt, pr, w = D.rule(n, "vertex_adjacent")
        pt = D.remap_points_shared_vertex(pt, ti)
        pr = D.remap_points_shared_vertex(pr, tj)
    X = _phys(T, pt)
    Y = _phys(Tp, pr)
    r = np.linalg.norm(X - Y, axis=1)
    jt = np.linalg.norm(np.cross(T[1] - T[0], T[2] - T[0]))
    jp = np.linalg.norm(np.cross(Tp[1] - Tp[0], Tp[2] - Tp[0]))
    return float(np.sum(w / r)) * jt * jp


def check_convergence(ctx, nmax):
    from bempp_cl.api.integration import duffy_galerkin as D

    geos = _geometries(ctx.seed)
    orders = list(range(2, nmax + 1))
    for kind in ("coincident", "edge", "vertex"):
        for gi, (T, Tp) in enumerate(geos[kind]):
            if kind == "coincident":
                ref = Q.coincident_closed_form(T)
                ref2 = Q.singular_reference(T, T, "coincident")
                combos = [(None, None)]
            else:
                ref = Q.singular_reference(T, Tp, kind)
                ref2 = Q.singular_reference(T, Tp, kind, p=12, levels=16)
                combos = (list(itertools.product(EDGE_PAIRS, EDGE_PAIRS)) if kind == "edge"
                          else list(itertools.product(range(3), range(3))))
            if abs(ref - ref2) > 1e-12 * abs(ref):
                raise RuntimeError("reference integral not converged: %r %r" % (ref, ref2))
            for ti, tj in combos:
                if kind == "edge":
                    Tl = _relabel(T, ti, (0, 1))
                    Tpl = _relabel(Tp, tj, (0, 1))
                elif kind == "vertex":
                    Tl = _relabel(T, (ti,), (0,))
                    Tpl = _relabel(Tp, (tj,), (0,))
                else:
                    Tl, Tpl = T, Tp
                errs = []
                for n in orders:
                    val = _lib_singular(D, n, kind, Tl, Tpl, ti, tj)
                    errs.append(abs(val - ref) / abs(ref))
                    ctx.case(("conv", kind, gi, repr(ti), repr(tj), n), sub="singular-convergence")
                case = {"sub": "convergence", "kind": kind, "geometry": gi, "test_local": ti, "trial_local": tj,
                        "errors": errs}
                sig = "duffy/convergence/%s/test=%s/trial=%s" % (kind, ti, tj)
                ctx.cover("remap_" + kind, (repr(ti), repr(tj)))
                ok = True
                # geometric convergence = an envelope C*rho^n with rho <= 1/2: a single order may dip below the envelope (sign change of the
                # error), so the step test spans two orders and the fitted rate over the points above the rounding floor is tested as well
                for a, c, n in zip(errs, errs[2:], orders[2:]):
                    if a > 1e-11 and not (c <= 0.25 * a):
                        ok = False
                        ctx.violation(sig, case, "no geometric convergence at n=%d: %.2e -> %.2e over two orders" % (n, a, c))
                        break
                above = [(n, e) for n, e in zip(orders, errs) if e > 1e-12]
                if ok and len(above) >= 3:
                    rate = float(np.exp(np.polyfit([n for n, _ in above], np.log([e for _, e in above]), 1)[0]))
                    ctx.observe("singular-fitted-rate", rate, 0.5)
                    if rate > 0.5:
                        ok = False
                        ctx.violation(sig, case, "fitted error reduction per order is %.2f > 0.5" % rate)
                if ok and nmax >= 8:
                    e8 = errs[orders.index(8)]
                    ctx.observe("singular-error-at-n=8(rel)", e8, 1e-6)
                    if e8 > 1e-6:
                        ctx.violation(sig, case, "error at n=8 is %.2e" % e8)
                if len(ctx.samples) < 4 and ti in (None, (1, 2), 1):
                    ctx.samples.append({"kind": kind, "test_local": ti, "trial_local": tj,
                                        "rel_errors_n=2..": ["%.1e" % x for x in errs]})


def check_collocation(ctx, orders):
    """duffy_collocation: rule on the reference triangle singular at vertex 0 integrates polynomials exactly."""
    from bempp_cl.api.integration import duffy_collocation as DC

    for n in orders:
        deg = 2 * n - 2
        for which in ("duffy_rule_on_reference_triangle", "singular_collocation_rule_piecewise_const"):
            pts, w = getattr(DC, which)(n)
            worst, wm = 0.0, None
            for a, b in Q.monomials_upto(deg, 2):
                if which.startswith("duffy"):
                    exact = 1.0 / ((b + 1) * (a + b + 2))  # triangle (0,0),(1,0),(1,1)
                else:
                    exact = float(Q.tri_monomial(a, b))
                err = abs(float(np.sum(w * pts[0] ** a * pts[1] ** b)) - exact)
                ctx.case(("colloc", which, n, a, b), sub="collocation-monomial")
                if err > worst:
                    worst, wm = err, (a, b)
            ctx.observe("collocation-exactness(abs)", worst, TOL)
            if worst > TOL:
                ctx.violation("collocation/exactness/%s/order=%d" % (which, n),
                              {"sub": "collocation", "order": n, "monomial": wm, "rule": which}, "error %.3e" % worst)


def _rule_families(quick):
    from bempp_cl.api.integration import duffy_collocation as DC
    from bempp_cl.api.integration import duffy_galerkin as D
    from bempp_cl.api.integration import gauss, triangle_gauss

    return {
        "triangle": (lambda n: triangle_gauss.rule(n), [1, 4, 10, 11, 20] if quick else list(range(1, 21))),
        "gauss": (lambda n: gauss.rule(n), [1, 5, 12, 30] if quick else list(range(1, 31))),
        "duffy-coincident": (lambda n: D.rule(n, "coincident"), [2, 3, 5, 6] if quick else list(range(1, 9))),
        "duffy-edge": (lambda n: D.rule(n, "edge_adjacent"), [2, 3, 5, 6] if quick else list(range(1, 9))),
        "duffy-vertex": (lambda n: D.rule(n, "vertex_adjacent"), [2, 3, 5, 6] if quick else list(range(1, 9))),
        "collocation": (lambda n: DC.duffy_rule_on_reference_triangle(n), [1, 3, 6] if quick else list(range(1, 9))),
    }


def _digest(res):
    import hashlib

    h = hashlib.sha256()
    for a in res:
        h.update(np.ascontiguousarray(np.array(a, dtype=np.float64)).tobytes())
    return h.hexdigest()


def _fresh_main(fam, quick, reverse):
    """Runs in a fresh interpreter: the rules of one family, each order requested once, ascending or descending."""
    import json as _json

    f, orders = _rule_families(bool(int(quick)))[fam]
    out = {}
    for n in (orders[::-1] if int(reverse) else orders):
        out[str(n)] = _digest(f(n))
    print("DIGESTS " + _json.dumps(out))


def _fresh_table(fam, quick, reverse):
    import json as _json
    import subprocess
    import sys

    cmd = [sys.executable, "-c", "from bex.checks import c12; c12._fresh_main(%r, %d, %d)" % (fam, int(quick), int(reverse))]
    out = subprocess.run(cmd, capture_output=True, text=True, timeout=600)
    for line in out.stdout.splitlines():
        if line.startswith("DIGESTS "):
            return {int(k): v for k, v in _json.loads(line[8:]).items()}
    raise RuntimeError("fresh interpreter failed for %s: %s" % (fam, out.stderr[-400:]))


def check_rule_histories(ctx, quick):
    """E2 over request histories: a rule lookup is a pure function of (order, adjacency) - the arrays returned for n after any earlier
    requests (same family: every ordered pair / triple of orders; other families: their highest order) must be bitwise those a fresh
    interpreter returns for n (module-level workspaces and caches must not leak between orders or adjacency types).  The fresh table
    is computed twice, ascending and descending, in separate interpreters; the two must agree."""
    import itertools

    families = _rule_families(quick)
    for fam, (f, orders) in families.items():
        first = _fresh_table(fam, quick, 0)
        first_desc = _fresh_table(fam, quick, 1)
        if first != first_desc:
            bad = [n for n in orders if first[n] != first_desc[n]]
            ctx.violation("rule-history/%s" % fam, {"sub": "rule-history", "family": fam, "requests": ["fresh ascending vs descending"], "orders": bad},
                          "in a fresh interpreter the rules for orders %s depend on whether the orders are requested ascending or descending" % bad)
        depth = 2 if quick else 3
        for hist in itertools.chain.from_iterable(itertools.product(orders, repeat=k) for k in range(1, depth + 1)):
            for m in hist[:-1]:
                f(m)
            got = _digest(f(hist[-1]))
            ctx.transitions += len(hist)
            ctx.case(("rule-history", fam, hist), sub="rule-history", sample={"family": fam, "requests": list(hist)} if len(ctx.samples) < 2 and len(hist) == 2 else None)
            if got != first[hist[-1]]:
                ctx.violation("rule-history/%s" % fam, {"sub": "rule-history", "family": fam, "requests": list(hist)},
                              "rule for order %d requested after %s differs from the rule a fresh interpreter returns" % (hist[-1], list(hist[:-1])))
        # interleaving with the other families (shared Gauss tables / workspaces)
        for other, (g, oorders) in families.items():
            if other == fam:
                continue
            for n in orders:
                g(oorders[-1])
                ctx.transitions += 2
                ctx.case(("rule-history", fam, other, n), sub="rule-history")
                if _digest(f(n)) != first[n]:
                    ctx.violation("rule-history/%s" % fam, {"sub": "rule-history", "family": fam, "requests": [other, n]},
                                  "rule for order %d differs from the fresh one after a request to %s(%d)" % (n, other, oorders[-1]))


def run(ctx):
    quick = ctx.tier == "quick"
    check_rule_histories(ctx, quick)
    check_triangle(ctx, range(1, 21))
    check_gauss(ctx, range(1, 31))
    check_duffy_exactness(ctx, orders_full=range(2, 7 if quick else 11), orders_low=range(1, 13 if quick else 31))
    check_remap_exactness(ctx, 3)
    if not quick:
        check_remap_exactness(ctx, 4)
    check_collocation(ctx, range(1, 11 if quick else 31))
    check_convergence(ctx, 9 if quick else 11)
    ctx.require(len(ctx.cov.get("remap_edge", ())) == 36, "all 36 edge remap combinations exercised")
    ctx.require(len(ctx.cov.get("remap_vertex", ())) == 9, "all 9 vertex remap combinations exercised")
    ctx.assumptions += [
        "reference singular integrals: analytic triangle potential + graded tensor Gauss (numpy leggauss), "
        "cross-checked against the Eibert-Hansen closed form and at two resolutions on every run",
        "tolerance 1e-12 absolute for exactness (integrals are O(1))",
    ]
    return ctx.finish(
        rule="complete enumeration: triangle orders 1..20 x all monomials of degree<=n; Gauss 1..30 x degrees<=2n-1; "
        "Duffy rules x all 4-variable monomials of degree<=2n-4; every (test,trial) remap combination x 3 geometries "
        "x orders 2..nmax for the 1/|x-y| convergence; distinct = distinct (rule, order, monomial/remap) tuples",
        exhaustive=True,
    )


def replay(ctx, case):
    if case.get("sub") == "rule-history":
        check_rule_histories(ctx, False)
        return
    sub = case.get("sub")
    if sub == "triangle":
        check_triangle(ctx, [case["order"]])
    elif sub == "gauss":
        check_gauss(ctx, [case["order"]])
    elif sub == "duffy-exactness":
        check_duffy_exactness(ctx, [case["order"]], [])
    elif sub == "remap-exactness":
        check_remap_exactness(ctx, 3)
    elif sub == "collocation":
        check_collocation(ctx, [case["order"]])
    else:
        check_convergence(ctx, 9)
