"""Harness helpers to create real bempp operators from plain specs."""

import numpy as np


def params(regular=None, singular=None):
    from bempp_cl.api.utils.parameters import DefaultParameters

    p = DefaultParameters()
    if regular is not None:
        p.quadrature.regular = int(regular)
    if singular is not None:
        p.quadrature.singular = int(singular)
    return p


SCALAR_NAMES = ("single_layer", "double_layer", "adjoint_double_layer", "hypersingular")


def boundary(family, name, domain, range_, dual, k=None, par=None, assembler="default_nonlocal", precision=None):
    """family in laplace|helmholtz|modified_helmholtz|maxwell|sparse."""
    import bempp_cl.api as bem

    mod = getattr(bem.operators.boundary, family)
    f = getattr(mod, name)
    kw = dict(parameters=par, precision=precision)
    if family != "sparse":
        kw["assembler"] = assembler
    if family in ("helmholtz", "modified_helmholtz", "maxwell"):
        return f(domain, range_, dual, k, **kw)
    return f(domain, range_, dual, **kw)


def dense(op):
    w = op.weak_form()
    return np.asarray(w.to_dense())


def potential(family, name, space, points, k=None, par=None, assembler="dense", precision=None, far_field=False):
    import bempp_cl.api as bem

    mod = getattr(bem.operators.far_field if far_field else bem.operators.potential, family)
    f = getattr(mod, name)
    kw = dict(parameters=par, precision=precision)
    if not far_field:
        kw["assembler"] = assembler
    if family in ("helmholtz", "modified_helmholtz", "maxwell"):
        return f(space, points, k, **kw)
    return f(space, points, **kw)


def absmv(A, x):
    return np.abs(np.asarray(A)) @ np.abs(np.asarray(x))


def maxwell_raw(name, domain, range_, dual, k, par=None, assembler="default_nonlocal"):
    """Maxwell operator through common.create_operator (accepts localised RWG/SNC spaces, whose identifier differs)."""
    from bempp_cl.api.operators.boundary import common

    ident = "maxwell_electric_field_boundary" if name == "electric_field" else "maxwell_magnetic_field_boundary"
    atype = "maxwell_electric_field" if name == "electric_field" else "maxwell_magnetic_field"
    return common.create_operator(ident, domain, range_, dual, par, assembler, [np.real(k), np.imag(k)], "helmholtz_single_layer", atype, None, None, True)
