"""Diagnostic: union of the coverage data written by BEX_COVERAGE runs -> functions of bempp_cl never entered by any check,
and Numba kernels never compiled.  usage: python tools/cov_report.py /tmp/cov"""
import ast
import glob
import json
import os
import sys

import coverage

d = sys.argv[1]
files = sorted(glob.glob(os.path.join(d, "C*.cov")))
executed = {}
for f in files:
    data = coverage.CoverageData(basename=f)
    data.read()
    for mf in data.measured_files():
        executed.setdefault(mf, set()).update(data.lines(mf) or ())
kern = {}
for f in sorted(glob.glob(os.path.join(d, "C*.kernels.json"))):
    for k, v in json.load(open(f)).items():
        if isinstance(v, int):
            kern[k] = kern.get(k, 0) + v
print("checks with data:", [os.path.basename(f)[:3] for f in files])
root = "/repo/bempp_cl"
never = []
for dirpath, _, fnames in os.walk(root):
    for fn in fnames:
        if not fn.endswith(".py"):
            continue
        path = os.path.join(dirpath, fn)
        ex = executed.get(path, set())
        tree = ast.parse(open(path).read())
        for node in ast.walk(tree):
            if isinstance(node, (ast.FunctionDef, ast.AsyncFunctionDef)):
                body = [n.lineno for n in node.body if not (isinstance(n, ast.Expr) and isinstance(getattr(n, "value", None), ast.Constant))]
                if not body:
                    continue
                jitted = any("jit" in ast.unparse(dec) for dec in node.decorator_list)
                mod = path[len("/repo/"):-3].replace("/", ".")
                if jitted:
                    if kern.get("%s.%s" % (mod, node.name), 0) == 0:
                        never.append((path[len(root) + 1:], node.lineno, node.name, "numba kernel never compiled"))
                elif not any(l in ex for l in range(body[0], node.end_lineno + 1)):
                    never.append((path[len(root) + 1:], node.lineno, node.name, "python function never entered"))
for item in sorted(never):
    print("%-45s %5d %-50s %s" % item)
print(len(never), "functions never reached")
